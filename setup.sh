#!/bin/sh
# nothing to build: every check regenerates IR and C from /repo on each run. Verify the tools exist.
for t in cbmc clang++-14 llvm-link-14 g++ gcc python3; do command -v $t >/dev/null || { echo "missing tool: $t"; exit 1; }; done
mkdir -p /verif/evidence
exit 0
