#pragma once
namespace std
{
[[noreturn]] void __vstd_throw_out_of_range();
[[noreturn]] void __vstd_throw_length_error();
} // namespace std
