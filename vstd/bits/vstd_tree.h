// vstd model of the ordered associative containers: heap nodes (stable addresses),
// kept in a sorted array of at most VSTD_MAP_CAP node pointers.
#pragma once
#include "../vstd_config.h"
#include <bits/stl_function.h>
#include <bits/stl_pair.h>
#include <bits/stl_iterator_base_types.h>
#include <bits/stl_iterator.h>
#include <bits/range_access.h>
#include <bits/allocator.h>
#include <bits/vstd_stdexcept_fwd.h>
#include <initializer_list>
#include <tuple>
#include <new>
#include <utility>
namespace std
{
namespace __vstd
{
    template <typename Val>
    struct node
    {
        Val v;
        template <typename... Args>
        node(Args&&... a) : v(std::forward<Args>(a)...)
        {
        }
    };

    template <typename Val, bool Const>
    class tree_iter
    {
    public:
        typedef node<Val>* const* slot_t;
        typedef std::bidirectional_iterator_tag iterator_category;
        typedef Val value_type;
        typedef ptrdiff_t difference_type;
        typedef typename std::conditional<Const, const Val*, Val*>::type pointer;
        typedef typename std::conditional<Const, const Val&, Val&>::type reference;
        slot_t p;
        tree_iter() : p(nullptr)
        {
        }
        explicit tree_iter(slot_t q) : p(q)
        {
        }
        template <bool C2, typename = typename std::enable_if<Const && !C2>::type>
        tree_iter(const tree_iter<Val, C2>& o) : p(o.p)
        {
        }
        reference operator*() const
        {
            return (*p)->v;
        }
        pointer operator->() const
        {
            return &(*p)->v;
        }
        tree_iter& operator++()
        {
            ++p;
            return *this;
        }
        tree_iter operator++(int)
        {
            tree_iter t(*this);
            ++p;
            return t;
        }
        tree_iter& operator--()
        {
            --p;
            return *this;
        }
        tree_iter operator--(int)
        {
            tree_iter t(*this);
            --p;
            return t;
        }
        friend bool operator==(const tree_iter& a, const tree_iter& b)
        {
            return a.p == b.p;
        }
        friend bool operator!=(const tree_iter& a, const tree_iter& b)
        {
            return a.p != b.p;
        }
    };

    template <typename Key, typename Val, typename KeyOf, typename Cmp, bool Multi, bool ConstIter>
    class tree
    {
    public:
        typedef node<Val> node_t;
        typedef tree_iter<Val, ConstIter> iterator;
        typedef tree_iter<Val, true> const_iterator;
        typedef std::reverse_iterator<iterator> reverse_iterator;
        typedef std::reverse_iterator<const_iterator> const_reverse_iterator;
        typedef size_t size_type;

    protected:
        node_t* slot_[VSTD_MAP_CAP + 1];
        size_type n_;
        Cmp cmp_;

        // first index whose key is not less than k
        // Written for the solver: the array is sorted, so "first index whose key is not less than k" equals the
        // NUMBER of keys less than k.  Counting has a trip count of exactly n_ (no data-dependent exit), which keeps
        // the unwinding concrete when the keys are symbolic.
        size_type lower(const Key& k) const
        {
            size_type c = 0;
            for (size_type i = 0; i < n_; ++i)
                if (cmp_(KeyOf()(slot_[i]->v), k))
                    ++c;
            return c;
        }
        size_type upper(const Key& k) const
        {
            size_type c = 0;
            for (size_type i = 0; i < n_; ++i)
                if (!cmp_(k, KeyOf()(slot_[i]->v)))
                    ++c;
            return c;
        }
        std::pair<iterator, bool> insert_node(node_t* nd)
        {
            const Key& k = KeyOf()(nd->v);
            size_type i = Multi ? upper(k) : lower(k);
            if (!Multi && i < n_ && !cmp_(k, KeyOf()(slot_[i]->v)))
            {
                delete nd;
                return std::pair<iterator, bool>(iterator(slot_ + i), false);
            }
            if (n_ >= VSTD_MAP_CAP)
                __vstd_bound(3);
            for (size_type j = n_; j > 0; --j)
                if (j > i)
                    slot_[j] = slot_[j - 1];
            slot_[i] = nd;
            ++n_;
            return std::pair<iterator, bool>(iterator(slot_ + i), true);
        }
        void copy_from(const tree& o)
        {
            for (size_type i = 0; i < o.n_; ++i)
                slot_[i] = new node_t(o.slot_[i]->v);
            n_ = o.n_;
        }
        void steal_from(tree& o)
        {
            for (size_type i = 0; i < o.n_; ++i)
                slot_[i] = o.slot_[i];
            n_ = o.n_;
            o.n_ = 0;
        }

    public:
        tree() : n_(0)
        {
        }
        tree(const tree& o) : n_(0)
        {
            copy_from(o);
        }
        tree(tree&& o) : n_(0)
        {
            steal_from(o);
        }
        ~tree()
        {
            clear();
        }
        tree& operator=(const tree& o)
        {
            if (this != &o)
            {
                clear();
                copy_from(o);
            }
            return *this;
        }
        tree& operator=(tree&& o)
        {
            if (this != &o)
            {
                clear();
                steal_from(o);
            }
            return *this;
        }
        void clear()
        {
            for (size_type i = 0; i < n_; ++i)
                delete slot_[i];
            n_ = 0;
        }
        size_type size() const noexcept
        {
            return n_;
        }
        bool empty() const noexcept
        {
            return n_ == 0;
        }
        iterator begin() noexcept
        {
            return iterator(slot_);
        }
        const_iterator begin() const noexcept
        {
            return const_iterator(slot_);
        }
        const_iterator cbegin() const noexcept
        {
            return const_iterator(slot_);
        }
        iterator end() noexcept
        {
            return iterator(slot_ + n_);
        }
        const_iterator end() const noexcept
        {
            return const_iterator(slot_ + n_);
        }
        const_iterator cend() const noexcept
        {
            return const_iterator(slot_ + n_);
        }
        reverse_iterator rbegin() noexcept
        {
            return reverse_iterator(end());
        }
        const_reverse_iterator rbegin() const noexcept
        {
            return const_reverse_iterator(end());
        }
        const_reverse_iterator crbegin() const noexcept
        {
            return const_reverse_iterator(end());
        }
        reverse_iterator rend() noexcept
        {
            return reverse_iterator(begin());
        }
        const_reverse_iterator rend() const noexcept
        {
            return const_reverse_iterator(begin());
        }
        const_reverse_iterator crend() const noexcept
        {
            return const_reverse_iterator(begin());
        }
        size_type count(const Key& k) const
        {
            return upper(k) - lower(k);
        }
        iterator find(const Key& k)
        {
            size_type i = lower(k);
            if (i < n_ && !cmp_(k, KeyOf()(slot_[i]->v)))
                return iterator(slot_ + i);
            return end();
        }
        const_iterator find(const Key& k) const
        {
            size_type i = lower(k);
            if (i < n_ && !cmp_(k, KeyOf()(slot_[i]->v)))
                return const_iterator(slot_ + i);
            return end();
        }
        template <typename... Args>
        auto emplace(Args&&... args)
            -> typename std::conditional<Multi, iterator, std::pair<iterator, bool>>::type
        {
            auto r = insert_node(new node_t(std::forward<Args>(args)...));
            return pick(r, std::integral_constant<bool, Multi>());
        }
        auto insert(const Val& v)
            -> typename std::conditional<Multi, iterator, std::pair<iterator, bool>>::type
        {
            auto r = insert_node(new node_t(v));
            return pick(r, std::integral_constant<bool, Multi>());
        }
        auto insert(Val&& v)
            -> typename std::conditional<Multi, iterator, std::pair<iterator, bool>>::type
        {
            auto r = insert_node(new node_t(std::move(v)));
            return pick(r, std::integral_constant<bool, Multi>());
        }
        template <typename It>
        void insert(It first, It last)
        {
            for (; first != last; ++first)
                insert(*first);
        }
        size_type erase(const Key& k)
        {
            size_type lo = lower(k), hi = upper(k);
            for (size_type i = lo; i < hi; ++i)
                delete slot_[i];
            for (size_type i = hi; i < n_; ++i)
                slot_[lo + (i - hi)] = slot_[i];
            n_ -= hi - lo;
            return hi - lo;
        }

    private:
        static iterator pick(const std::pair<iterator, bool>& r, std::true_type)
        {
            return r.first;
        }
        static std::pair<iterator, bool> pick(const std::pair<iterator, bool>& r, std::false_type)
        {
            return r;
        }
    };

    template <typename P>
    struct select1st
    {
        const typename P::first_type& operator()(const P& p) const
        {
            return p.first;
        }
    };
    template <typename V>
    struct identity
    {
        const V& operator()(const V& v) const
        {
            return v;
        }
    };
} // namespace __vstd
} // namespace std
