// vstd: verification model of the parts of the C++ standard library nitro uses.
#pragma once
#define __VSTD_MODEL__ 1
#include <stddef.h>
#ifndef VSTD_STR_CAP
#define VSTD_STR_CAP 15
#endif
#ifndef VSTD_VEC_CAP
#define VSTD_VEC_CAP 4
#endif
#ifndef VSTD_MAP_CAP
#define VSTD_MAP_CAP 4
#endif
#ifndef VSTD_SS_CAP
#define VSTD_SS_CAP VSTD_STR_CAP
#endif
extern "C" {
// Called when a bound of the model (string/vector/map capacity) would be exceeded.
// In CBMC harnesses this is assume(false): such executions are outside the stated bounds.
[[noreturn]] void __vstd_bound(int what);
// Called when the model is asked for something it does not implement (e.g. regex syntax).
[[noreturn]] void __vstd_unsupported(int what);
}
