// runtime objects of the model (compiled to IR together with each harness)
#include <iostream>
namespace std
{
static __vstd::core cout_core = { 0, 0, 0, false, false, false, { 0 } };
static __vstd::core cerr_core = { 0, 0, 0, false, false, false, { 0 } };
ostream cout(&cout_core);
ostream cerr(&cerr_core);
ostream clog(&cerr_core);
} // namespace std
