/* native_shims.c -- in the g++/libstdc++ replay build, libc/loader entry points that the harness stubs
 * (ir2c_<name> in the generated C) are redirected with -Wl,--wrap=<name> to the same harness stubs. */
#include "ir2c_rt.h"
#ifdef WRAP_getenv
u8* ir2c_getenv(u8* n);
char* __wrap_getenv(const char* n) { return (char*)ir2c_getenv((u8*)n); }
#endif
#ifdef WRAP_dlopen
u8* ir2c_dlopen(u8* f, u32 flags);
void* __wrap_dlopen(const char* f, int flags) { return ir2c_dlopen((u8*)f, (u32)flags); }
#endif
#ifdef WRAP_dlsym
u8* ir2c_dlsym(u8* h, u8* n);
void* __wrap_dlsym(void* h, const char* n) { return ir2c_dlsym((u8*)h, (u8*)n); }
#endif
#ifdef WRAP_dlclose
u32 ir2c_dlclose(u8* h);
int __wrap_dlclose(void* h) { return (int)ir2c_dlclose((u8*)h); }
#endif
#ifdef WRAP_dlerror
u8* ir2c_dlerror(void);
char* __wrap_dlerror(void) { return (char*)ir2c_dlerror(); }
#endif
/* the real build runs its static constructors before main */
void ir2c_global_ctors(void) {}
void ir2c_reset_nitro_statics(void) {}
