#!/usr/bin/env python3
"""writes seeded/<id>/meta.json from the trial evidence under /var/tmp/mut_evidence (run after tools/try_mutant.sh)"""
import glob, json, os
HERE = os.path.dirname(os.path.dirname(os.path.abspath(__file__)))
INFO = {
 'C01-A': ('C01', 'check_parser_consistency() returns the set of ALL short names and try_parse_as_toggle() uses it for the bundle-coverage test', 'a bundle mixing a declared toggle letter with the short name of a value-taking option (-vo): accepted, o dropped'),
 'C01-B': ('C01', 'per-letter bundle check with an is_toggle flag that is never reset', 'a bundle in which an undeclared / option letter sorts after a declared toggle letter (-vx): accepted, x dropped'),
 'C01-C': ('C01', 'toggle::update_value() handles --no-NAME first, so the "a toggle takes no value" check guards only the plain form', 'a reversible toggle given as --no-NAME=VALUE: accepted, =VALUE dropped'),
 'C01-D': ('C01', 'try_parse_as_option advances past the next token whenever a value token follows, also after --opt=value', '--opt=value directly followed by a value token: that token is skipped silently'),
 'C04-C': ('C04', 'toggle::matches compares the negated spelling by prefix (compare(5, n, name) == 0)', 'an unknown token --no-<name><extra> for a reversible toggle: accepted and switches the toggle off'),
 'C04-D': ('C04', 'toggle::check() guards the environment fallback by !given() instead of !has_non_default()', '--no-<name> on the command line with the bound variable set: spurious error for an unknown word / environment overrides the command line'),
 'C06-C': ('C06', 'copy assignment fast path for equal capacities re-uses the range insert, which never lowers size', 'copy-assign a shorter container onto a longer one of the same capacity'),
 'C06-D': ('C06', 'move constructor made allocation-free: the moved-from container keeps its capacity but owns no storage', 'append to a moved-from container: write through a null pointer'),
 'C07-C': ('C07', 'move assignment swaps size and data by hand but not capacity', 'move assignment between containers of different capacity'),
 'C07-D': ('C07', 'erase() closes the gap with memmove for trivially copyable types, with an element count instead of a byte count', 'erase in a fixed_vector of a plain type wider than one byte with two or more elements behind the position (or values that differ above the lowest byte)'),
 'C09-C': ('C09', 'the stderr sink creates its mutex lazily through an unsynchronised check-then-create', 'the very first two records arrive from two threads at once: each locks its own mutex'),
 'C09-D': ('C09', 'stdout_mt uses a hand-written spin lock whose CAS loop does not reset the expected value', 'a thread asks for the lock while another holds it and retries while it is still held: both are inside'),
 'C12-C': ('C12', 'parse(argc, argv) builds user_input with the checking constructor', 'a token after -- (or after the greedy switch) that would be malformed as an option (---x, -=x, a lone -): rejected instead of returned as a positional'),
 'C12-D': ('C12', 'user_input::is_value() returns false for an empty name', 'an empty-string argument or a token starting with = ahead of --: rejected instead of taken as a positional'),
 'C14-C': ('C14', 'option::prepare() returns early when the option was not given, so a value filled from the default survives', 'an option with a default: a parse without it, then a parse that gives it: already given'),
 'C14-D': ('C14', 'toggle remembers "negated form seen" in a new member that prepare() does not reset', 'a reversible toggle: --no-<name> in one parse, the positive form in a later one: rejected'),
 'C18-C': ('C18', 'quaint_ptr::reset() runs the deleter while the owner still holds the pointer', 'a pointee whose destructor reaches back to its owner and resets it: destroyed twice'),
 'C18-D': ('C18', 'optional shares its payload between copies (shared_ptr) and value assignment writes into the shared payload', 'copy an engaged optional, assign a value to one of the two, read the other'),
 'C02-A': ('C02', 'user_input::value() returns the split-off part whenever the token contains =', 'a value that contains = given as a SEPARATE token (--o k=v, -p =v): everything up to the first = is lost'),
 'C02-B': ('C02', 'typed access extracts with std::setbase(0) ("accept 0x...")', 'zero-padded decimal text (010, 0042, 08): read as octal'),
 'C03-A': ('C03', 'toggle::check() asks "given on the command line?" by count instead of by the dirty flag', 'reversible toggle bound to an env variable, --no-<name> on the command line, variable set: environment overrides the command line'),
 'C03-B': ('C03', 'multi_option::check() skips empty elements while splitting the environment value', 'env value with an empty element (a;;b, ;a, ;): elements dropped, or no value at all and the default / required check skipped'),
 'C04-A': ('C04', 'positional branch split: the accepted-count check stays only in the is_value() path', 'surplus positionals behind -- (or after the first positional in greedy mode): accepted'),
 'C04-B': ('C04', 'try_parse_as_option tests !next->is_argument() instead of next->is_value()', 'value-taking option followed by --, -, ---x, --=x: parser_error escapes or the malformed token is swallowed as the value'),
 'C05-A': ('C05', 'runtime threshold moved into a function-local static keyed on the record type only', 'a filter expression with two severity_filter<R,N> of different N set to different thresholds'),
 'C05-B': ('C05', 'smart_stream recycles one thread_local stringstream per logger type and severity', 'two statements of the same severity with overlapping lifetimes (named stream object + a statement in between)'),
 'C06-A': ('C06', 'range insert checks distance(start,end) > capacity once instead of per element', 'range append at key > 0 with n <= capacity but key + n > capacity: heap overflow, size > capacity'),
 'C06-B': ('C06', 'emplace(pos) constructs the new element after shifting the tail', 'constructor throws (container changed although the operation failed) or the argument aliases an element of the container'),
 'C07-A': ('C07', 'copy assignment fast path for equal capacities re-uses the overwriting range insert without resetting size', 'copy-assign to a destination of the same capacity that currently holds MORE elements than the source'),
 'C07-B': ('C07', 'emplace(pos) shifts the tail in forward order', 'positional emplace with at least two live elements at or after the position'),
 'C08-A': ('C08', 'in-place find/replace loop without advancing past the inserted argument', 'an argument whose text contains {} (or ends in { before a literal })'),
 'C08-B': ('C08', 'early return of the raw format when no arguments were supplied', 'a format with placeholders rendered with zero arguments: no exception'),
 'C09-A': ('C09', 'stdout_mt flushes after releasing the lock', 'two threads, a stream buffer whose sync() shares state with its write path, the flush of one thread interleaving with the insertion of another'),
 'C09-B': ('C09', 'StdErrThreaded uses try_lock() and ignores the result for fatal records', 'a fatal-severity record arriving while another thread holds the mutex'),
 'C10-A': ('C10', 'rvalue operator<< overloads delegate to the lvalue ones; the callable is invoked before the guard', 'one-expression statement, rejected by the runtime filter, with a streamed callable'),
 'C10-B': ('C10', 'filter verdict cached per severity in a function-local static', 'statement of severity S, runtime threshold changed, another statement of severity S'),
 'C11-A': ('C11', 'polarity conflict check skipped for the short spelling', '--no-<name> followed by a short token containing the letter, in that order'),
 'C11-B': ('C11', 'env word normalised by lower-casing when the first character is upper-case', 'mixed-case variants of documented words (TRue, OFf): accepted instead of rejected'),
 'C12-A': ('C12', 'first -- always swallowed, even after greedy mode switched to positionals', 'greedy mode, a positional before the first --: that -- disappears from positionals()'),
 'C12-B': ('C12', 'positional branch split: the accepted-count check stays only in the is_value() path', 'excess positional after -- or (greedy) after the first positional'),
 'C13-A': ('C13', 'parser move operations re-seat only the named groups (walk group_order_)', 'move the parser, then declare on the default group a name that exists elsewhere: accepted'),
 'C13-B': ('C13', 'declaration methods emplace first and raise afterwards without removing the element', 'a rejected re-declaration is caught by the caller and repeated: accepted the second time, the left-over object answers to its letter'),
 'C14-A': ('C14', 'multi_option::check() moves the default list out (std::move(*default_))', 'a multi_option with a non-empty default, two parses in which it is not given'),
 'C14-B': ('C14', 'prepare_options() skipped while a pristine_ flag is set, flag only cleared after a successful parse', 'the first parse on the object fails after option state was written, then another parse'),
 'C15-A': ('C15', 'format_padded initialises the free space of the first line as if the text started left of the pad column', 'an entry whose spelling is wider than 40 columns with a description that has to wrap: first line up to 40 columns too wide'),
 'C15-B': ('C15', 'format_default() of option / multi_option suppresses an empty default', 'option with default_value(""): the (default: ) hint is missing'),
 'C16-A': ('C16', 'hash of float / double through the object representation instead of std::hash', 'a floating-point component that is -0.0 in one value and +0.0 in the other'),
 'C16-B': ('C16', 'integral hash through a 32-bit mixer (fmix32)', '64-bit integer components that differ only in the upper 32 bits'),
 'C17-A': ('C17', 'split fast path "needle does not fit" written with >= instead of >', 'haystack equal to the non-empty needle'),
 'C17-B': ('C17', 'replace_all rebuilt with a second buffer, next search starts at pos + 1', 'a self-overlapping pattern whose occurrences overlap in the input (a---b, --)'),
 'C18-A': ('C18', 'hand-written move assignment installs the incoming deleter before destroying the old pointee', 'move-assign onto a pointer that owns an object of a DIFFERENT type'),
 'C18-B': ('C18', 'optional copy assignment resets the target before looking at the source', 'self-assignment of an engaged optional (or a throwing copy)'),
 'C19-A': ('C19', 'no_default overload implemented through get(name) and "empty means unset"', 'variable set to the empty string read through the no-default form: raises'),
 'C19-B': ('C19', 'dlclose guard for a null handle dropped from the shared_ptr deleter', 'a failed dlopen: dlclose(NULL) during unwinding'),
 'C20-A': ('C20', 'postfix operator++ of the enumerate iterator does not advance the index', 'iteration that uses it++ / *it++ (range-for uses the prefix form)'),
 'C20-B': ('C20', 'crbegin() of fixed_vector computed from capacity instead of size', 'reverse() of a TEMPORARY fixed_vector with size() < capacity()'),
}
for tag, (prop, what, needs) in sorted(INFO.items()):
    d = os.path.join(HERE, 'seeded', tag)
    runs = []
    for f in sorted(glob.glob('/var/tmp/mut_evidence/%s/C*.json' % tag)):
        e = json.load(open(f)); c = e['coverage']
        first = ''
        for q in c.get('queries', []):
            for ce in q.get('counterexamples', []):
                if ce.get('reproduced') is not False:
                    first = (ce.get('desc') or ce.get('existential_claim_unsat') or '')[:160]
                    break
            if first:
                break
        runs.append({'check': './check %s --tier quick (against a scratch worktree with patch.diff applied)' % e['property_id'], 'violations': e.get('violations', 0),
                     'inconclusive': len(c.get('inconclusive', [])), 'queries': c.get('queries_issued', 0), 'wall_s': e['wall_s'], 'first_violated_assertion': first})
    meta = {'id': tag, 'property': prop, 'change': what, 'needs_to_manifest': needs,
            'origin': 'written by an independent sub-agent that was given only the property text and a scratch worktree',
            'confirmed_by_me': 'tools/confirm_mutant.sh: patch applies to /repo HEAD, library + test-suite build, suite result equals the baseline (only Nitro.dl_test fails, 4 of 6 assertions), demo exits 1 with the change and 0 without',
            'checks_run': runs, 'detected': any(r['violations'] > 0 for r in runs)}
    json.dump(meta, open(os.path.join(d, 'meta.json'), 'w'), indent=1)
    print(tag, 'detected' if meta['detected'] else ('NOT DETECTED' if runs else 'not run yet'), [(r['check'].split()[1], r['violations'], r['inconclusive']) for r in runs])
