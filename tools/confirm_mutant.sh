#!/bin/bash
# confirm_mutant.sh <Cxx> : for mutants A and B of property Cxx, in the scratch worktree /tmp/wt_Cxx: the patch applies, the library and its
# test-suite build, the suite result equals the baseline (only Nitro.dl_test fails, with its 2 known assertions), the demonstration fails
# with the change and passes without it.  Prints one line per mutant.
K=$1; WT=/tmp/wt_$K
run_demo() { # $1 = A|B
  local D=$WT/mutants/$1
  if [ -f $D/demo.sh ]; then ( cd $D && timeout 300 sh ./demo.sh ) >/dev/null 2>&1; return $?; fi
  if [ -f $D/run.sh ]; then ( cd $D && timeout 300 sh ./run.sh ) >/dev/null 2>&1; return $?; fi
  if [ -f $WT/mutants/build_demo.sh ]; then ( timeout 300 sh $WT/mutants/build_demo.sh $1 && timeout 60 $D/demo ) >/dev/null 2>&1; return $?; fi
  g++ -std=c++17 -O1 -w -I $WT/include $D/demo.cpp $WT/src/options/*.cpp $WT/src/env/get.cpp -o /tmp/demo_${K}_$1 -pthread -ldl >/dev/null 2>&1 || return 99
  timeout 120 /tmp/demo_${K}_$1 >/dev/null 2>&1; return $?
}
for V in ${VARIANTS:-A B}; do
  git -C $WT checkout -q -- . ; 
  if ! git -C $WT apply $WT/mutants/$V/patch.diff 2>/dev/null; then echo "$K-$V: PATCH-DOES-NOT-APPLY"; continue; fi
  if ! cmake --build $WT/_build >/dev/null 2>&1; then echo "$K-$V: BUILD-FAILS"; git -C $WT checkout -q -- .; continue; fi
  FAILED=$(cd $WT/_build && ctest -j4 2>&1 | grep -E "^\s+[0-9]+ - " | awk '{print $3}' | tr '\n' ' ')
  DL=$(cd $WT/_build/tests && LD_LIBRARY_PATH=$WT/_build/tests ./Nitro.dl_test 2>&1 | grep "^assertions" )
  run_demo $V; RW=$?
  git -C $WT checkout -q -- .
  run_demo $V; RO=$?
  echo "$K-$V: suite_failed=[$FAILED] dl=[$DL] demo_with_change=$RW demo_without=$RO"
done
git -C $WT checkout -q -- .
cmake --build $WT/_build >/dev/null 2>&1
