#!/bin/bash
# usage: try_patch.sh <patch.diff> <tag> <property>...  -- applies the patch to a scratch worktree of /repo's HEAD (never to /repo), runs the
# quick checks against it (tools/try_mutant.sh) and removes the worktree again
PATCH=$1; TAG=$2; shift 2
WT=/tmp/tp_$TAG
git -C /repo worktree add --detach $WT HEAD >/dev/null 2>&1 || { echo "cannot create $WT"; exit 2; }
if git -C $WT apply $PATCH; then bash /verif/tools/try_mutant.sh $WT $TAG "$@"; else echo "PATCH-DOES-NOT-APPLY $TAG"; fi
git -C /repo worktree remove --force $WT; git -C /repo worktree prune
