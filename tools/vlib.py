#!/usr/bin/env python3
"""vlib: the shared machinery of /verif.

  real nitro sources (+ harness .cpp)  --clang-14 -O1--> LLVM IR --llvm-link--> one module
      --ir2c--> plain C  --cbmc--> verdict for ALL inputs inside the stated bounds
  counterexample --> VIN string --> replay on the g++/libstdc++ (ASan+UBSan) build of the same harness

A property check is a list of Units; a Unit is one pipeline build plus a list of Queries that
share it.  Nothing here is specific to one property.
"""
import concurrent.futures
import hashlib
import json
import os
import re
import resource
import shutil
import signal
import subprocess
import sys
import tempfile
import threading
import time

VERIF = os.path.dirname(os.path.dirname(os.path.abspath(__file__)))
EVID = os.environ.get('VERIF_EVIDENCE_DIR') or os.path.join(VERIF, 'evidence')   # mutant trials write elsewhere
TOOLS = os.path.join(VERIF, 'tools')
VSTD = os.path.join(VERIF, 'vstd')
REPO = os.environ.get('VERIF_REPO', '/repo')
NCPU = os.cpu_count() or 4
MEM_BUDGET_GB = 44

CLANG_FLAGS = ['-std=c++17', '-O1', '-fno-builtin', '-fno-vectorize', '-fno-slp-vectorize',
               '-fno-unroll-loops', '-S', '-emit-llvm', '-w']
CBMC_FLAGS = ['--object-bits', '12', '--no-malloc-may-fail', '--drop-unused-functions',
              '--no-standard-checks', '--bounds-check', '--pointer-check', '--unwinding-assertions',
              '--trace', '--verbosity', '8']


class Inconclusive(Exception):
    pass


def sh(cmd, cwd=None, timeout=None, env=None, check=True):
    p = subprocess.run(cmd, cwd=cwd, stdout=subprocess.PIPE, stderr=subprocess.STDOUT, text=True,
                       timeout=timeout, env=env, errors='replace')
    if check and p.returncode != 0:
        raise Inconclusive('command failed (%d): %s\n%s' % (p.returncode, ' '.join(cmd)[:400], p.stdout[-3000:]))
    return p


def caps_defs(caps):
    m = {'str': 'VSTD_STR_CAP', 'vec': 'VSTD_VEC_CAP', 'map': 'VSTD_MAP_CAP', 'ss': 'VSTD_SS_CAP',
         're': 'VSTD_RE_ITEMS'}
    return ['-D%s=%d' % (m[k], v) for k, v in sorted(caps.items())]


class Query:
    """one CBMC query = one set of -D defines for the harness main (a 'shape'); all inputs drawn through
    in_u32() are symbolic.  witnesses: names of WITNESS_AT points that must be reachable (twin run)."""

    def __init__(self, name, defs=(), witnesses=(), unwind=2, timeout=900, est_gb=3, hardcap=40,
                 extra_cbmc=(), sample=None, profile=None, required_sat=(), harness_unwind=18, trust_solver=False, expect_fail=False, floor=None, confirm=None):
        self.confirm = confirm      # callable(runner, unit, query, desc, vin) -> (confirmed, how): a solver counterexample of this query only counts
                                    # when the callable reproduces its cause on the real code (C09 stale-view queries: a ThreadSanitizer run)
        self.name = name
        self.floor = floor          # {regex on loop id: minimal bound given up front} for loops whose need the concrete profile cannot see
        self.defs = list(defs)
        self.witnesses = list(witnesses)
        self.unwind = unwind
        self.timeout = timeout
        self.est_gb = est_gb
        self.hardcap = hardcap
        self.extra_cbmc = list(extra_cbmc)
        self.sample = sample
        self.harness_unwind = harness_unwind
        self.expect_fail = expect_fail     # negative control: a deliberately broken variant that the query MUST refute
        self.trust_solver = trust_solver   # the counterexample is a SCHEDULE (C09): it cannot be replayed natively; report it from the solver trace
        self.required_sat = list(required_sat)   # witnesses whose UNREACHABILITY is itself a violation (existential claims)
        self.profile = profile      # concrete VIN vectors of this shape: per-loop bounds are learnt from them (then checked)


class Unit:
    def __init__(self, name, harness_cpp, main_c, repo_srcs=(), caps=None, cxx_defs=(), queries=(),
                 corpus=(), wrap=(), model_srcs=(), extra_clang=(), native_cxx=(), hints=None,
                 private_public=False, native_link=(), inc=(), leak_on_unwind=False, extra_tus=(), obligations=(), ir2c_flags=()):
        self.name = name
        self.harness_cpp = harness_cpp      # path relative to /verif
        self.main_c = main_c                # path relative to /verif
        self.repo_srcs = list(repo_srcs)    # paths relative to /repo
        self.caps = dict(caps or {})
        self.cxx_defs = list(cxx_defs)      # -D for the C++ side (model and native)
        self.queries = list(queries)
        self.corpus = list(corpus)          # [(defs, [vin...])]: differential model-vs-native inputs
        self.wrap = list(wrap)              # libc symbols the native build redirects to the harness stubs
        self.model_srcs = list(model_srcs)  # extra C++ compiled into the model only (relative to /verif)
        self.extra_clang = list(extra_clang)
        self.native_cxx = list(native_cxx)
        self.hints = hints                  # path (relative to /verif) of committed unwind hints
        self.private_public = private_public
        self.native_link = list(native_link)
        self.leak_on_unwind = leak_on_unwind
        self.ir2c_flags = list(ir2c_flags)
        self.extra_tus = list(extra_tus)      # [(path relative to /verif, [flags])]: further C++ TUs of the harness, each with its own -D flags
        self.obligations = list(obligations)  # [(name, path relative to /verif, [flags])]: must compile (static_asserts); a compile failure is the violation
        self.inc = [x for d_ in inc for x in ('-I', os.path.join(VERIF, d_))]
        self.dir = None
        self.functions = []


# ------------------------------------------------------------------ build
def build_model(u, work):
    d = os.path.join(work, u.name)
    os.makedirs(d, exist_ok=True)
    u.dir = d
    flags = CLANG_FLAGS + ['-I', VSTD, '-I', os.path.join(REPO, 'include'), '-I', TOOLS, '-DNITRO_VERIF'] + \
        caps_defs(u.caps) + u.cxx_defs + u.extra_clang + u.inc
    srcs = [os.path.join(REPO, s) for s in u.repo_srcs] + [os.path.join(VSTD, 'vstd_rt.cpp')] + \
        [os.path.join(VERIF, s) for s in u.model_srcs] + [os.path.join(VERIF, u.harness_cpp)] + \
        [(os.path.join(VERIF, p_), list(f_)) for p_, f_ in u.extra_tus]
    lls = []

    def one(i_src):
        i, src = i_src
        xf = []
        if isinstance(src, tuple):
            src, xf = src
        out = os.path.join(d, 'm%d_%s.ll' % (i, os.path.basename(src).replace('.cpp', '')))
        fl = list(flags) + xf
        if src.endswith(os.path.basename(u.harness_cpp)) and u.private_public:
            fl += ['-Dprivate=public', '-Dprotected=public']
        sh(['clang++-14'] + fl + [src, '-o', out])
        return out
    with concurrent.futures.ThreadPoolExecutor(8) as ex:
        lls = list(ex.map(one, enumerate(srcs)))
    allll = os.path.join(d, 'all.ll')
    sh(['llvm-link-14', '-S'] + lls + ['-o', allll])
    p = sh([sys.executable, os.path.join(TOOLS, 'ir2c.py'), allll, os.path.join(d, 'all.c'), os.path.join(d, 'all.h')] +
           (['--leak-on-unwind'] if u.leak_on_unwind else []) + u.ir2c_flags, check=False)
    if p.returncode != 0:
        raise Inconclusive('ir2c: ' + p.stdout[-2000:])
    u.functions = encoded_functions(allll)
    u.functions_pre_inlining = []
    try:
        def one0(i_src):
            i, src = i_src
            xf = []
            if isinstance(src, tuple):
                src, xf = src
            out = os.path.join(d, 'z%d.ll' % i)
            fl = [f for f in flags if f != '-O1'] + ['-O0'] + xf
            if src.endswith(os.path.basename(u.harness_cpp)) and u.private_public:
                fl += ['-Dprivate=public', '-Dprotected=public']
            sh(['clang++-14'] + fl + [src, '-o', out])
            return out
        with concurrent.futures.ThreadPoolExecutor(8) as ex:
            l0 = list(ex.map(one0, enumerate(srcs)))
        a0 = os.path.join(d, 'all0.ll')
        sh(['llvm-link-14', '-S'] + l0 + ['-o', a0])
        u.functions_pre_inlining = encoded_functions(a0)
        for f in l0 + [a0]:
            os.unlink(f)
    except Exception:
        pass
    u.chash = hashlib.sha256(open(os.path.join(d, 'all.c'), 'rb').read()).hexdigest()[:16]
    return d


def encoded_functions(allll):
    """nitro:: functions reachable from the extern "C" entry points in the linked module (call-graph over
    textual references, so indirect calls through vtables are included via the vtable globals)."""
    txt = open(allll).read()
    bodies = {}
    for m in re.finditer(r'^define [^@]*(@[-\w$."]+)\(.*?^}', txt, re.S | re.M):
        bodies[m.group(1)] = m.group(0)
    gl = {}
    for m in re.finditer(r'^(@[-\w$."]+) = .*$', txt, re.M):
        gl[m.group(1)] = m.group(0)
    roots = [n for n in bodies if re.fullmatch(r'@[A-Za-z][A-Za-z0-9_]*', n) and not n.startswith('@_Z')]
    seen = set()
    todo = list(roots)
    while todo:
        n = todo.pop()
        if n in seen:
            continue
        seen.add(n)
        body = bodies.get(n) or gl.get(n) or ''
        for r in set(re.findall(r'@[-\w$."]+', body)):
            if r not in seen and (r in bodies or r in gl):
                todo.append(r)
    names = sorted(n[1:] for n in seen if n in bodies and n.startswith('@_Z'))
    if not names:
        return []
    dem = subprocess.run(['c++filt'], input='\n'.join(names), stdout=subprocess.PIPE, text=True).stdout.split('\n')
    out = sorted(set(re.sub(r'\(.*', '', x) for x in dem if 'nitro::' in x))
    return out


def build_native(u, d, kind, main_defs, tag):
    """kind 'real': g++ + libstdc++ + ASan/UBSan on the real sources; 'model': gcc on the ir2c output."""
    exe = os.path.join(d, '%s_%s' % (kind, tag))
    main_c = os.path.join(VERIF, u.main_c)
    mo = os.path.join(d, 'main_%s_%s.o' % (kind, tag))
    if kind == 'real':
        san = ['-fsanitize=address,undefined', '-fno-sanitize-recover=undefined', '-fno-omit-frame-pointer']
        objs = os.path.join(d, 'real_objs')
        with _lock(u.name + 'real'):
            if not os.path.exists(objs + '.done'):
                os.makedirs(objs, exist_ok=True)
                srcs = [os.path.join(REPO, s) for s in u.repo_srcs] + [os.path.join(VERIF, u.harness_cpp)] + \
                    [(os.path.join(VERIF, p_), list(f_)) for p_, f_ in u.extra_tus]

                def one(i_src):
                    i, src = i_src
                    xf = []
                    if isinstance(src, tuple):
                        src, xf = src
                    fl = ['-std=c++17', '-O1', '-g', '-w', '-I', os.path.join(REPO, 'include'), '-I', TOOLS] + san + \
                        u.cxx_defs_native() + u.native_cxx + u.inc + xf
                    if src.endswith(os.path.basename(u.harness_cpp)) and u.private_public:
                        fl += ['-fno-access-control']
                    sh(['g++'] + fl + ['-c', src, '-o', os.path.join(objs, 'o%d.o' % i)])
                with concurrent.futures.ThreadPoolExecutor(8) as ex:
                    list(ex.map(one, enumerate(srcs)))
                sh(['gcc', '-O1', '-g', '-w', '-I', TOOLS, '-c', os.path.join(TOOLS, 'native_shims.c'), '-o',
                    os.path.join(objs, 'shims.o')] + ['-DWRAP_%s' % w for w in u.wrap])
                open(objs + '.done', 'w').write('ok')
        sh(['gcc', '-O1', '-g', '-w', '-DNATIVE', '-DNATIVE_REAL', '-I', TOOLS, '-I', d] + u.inc + main_defs + ['-c', main_c, '-o', mo])
        wraps = ['-Wl,--wrap=%s' % w for w in u.wrap]
        sh(['g++'] + san + [mo] + [os.path.join(objs, f) for f in sorted(os.listdir(objs))] + wraps + u.native_link + ['-o', exe])
    else:
        ao = os.path.join(d, 'all_model.o')
        with _lock(u.name + 'model'):
            if not os.path.exists(ao):
                sh(['gcc', '-O1', '-w', '-fno-strict-aliasing', '-fwrapv', '-I', TOOLS, '-c', os.path.join(d, 'all.c'), '-o', ao])
                sh(['gcc', '-O1', '-w', '-I', TOOLS, '-c', os.path.join(TOOLS, 'ir2c_rt.c'), '-o', os.path.join(d, 'rt_model.o')])
        sh(['gcc', '-O1', '-w', '-DNATIVE', '-DNATIVE_MODEL', '-I', TOOLS, '-I', d] + u.inc + main_defs + ['-c', main_c, '-o', mo])
        sh(['gcc', mo, ao, os.path.join(d, 'rt_model.o'), '-o', exe])
    return exe


def _cxx_defs_native(self):
    return ['-DNITRO_VERIF'] + self.cxx_defs


Unit.cxx_defs_native = _cxx_defs_native

_locks = {}
_locks_guard = threading.Lock()


def _lock(key):
    with _locks_guard:
        if key not in _locks:
            _locks[key] = threading.Lock()
        return _locks[key]


def run_native(exe, vin, timeout=20, rtenv=None):
    env = dict(os.environ)
    env.update(rtenv or {})
    env['VIN'] = ','.join(str(v) for v in vin)
    env['ASAN_OPTIONS'] = 'detect_leaks=1:abort_on_error=0:exitcode=66'
    env['UBSAN_OPTIONS'] = 'halt_on_error=1:exitcode=67'
    try:
        p = subprocess.run([exe], stdout=subprocess.PIPE, stderr=subprocess.PIPE, text=True, errors='replace',
                           timeout=timeout, env=env)
        return p.returncode, p.stdout, p.stderr
    except subprocess.TimeoutExpired as e:
        return 124, (e.stdout or b'').decode(errors='replace') if isinstance(e.stdout, bytes) else (e.stdout or ''), 'TIMEOUT'


def defs_tag(defs):
    return hashlib.sha1(' '.join(defs).encode()).hexdigest()[:10]


# ------------------------------------------------------------------ cbmc
def load_hints(u):
    if not u.hints:
        return {}
    p = os.path.join(VERIF, u.hints)
    if os.path.exists(p):
        return json.load(open(p))
    return {}


RES_RE = re.compile(r'^\[([^\]]+)\] (.*): (SUCCESS|FAILURE)$')


def run_cbmc(u, q, defs, unwindset, timeout, log, verbosity=None, extra=()):
    cmd = ['/usr/bin/time', '-o', log + '.rss', '-f', 'RSSKB=%M', 'cbmc', os.path.join(u.dir, 'all.c'), os.path.join(TOOLS, 'ir2c_rt.c'),
           os.path.join(VERIF, u.main_c), '-I', TOOLS, '-I', u.dir] + u.inc + defs + CBMC_FLAGS + \
        ['--unwind', str(q.unwind)] + q.extra_cbmc + list(extra)
    if unwindset:
        cmd += ['--unwindset', ','.join('%s:%d' % kv for kv in sorted(unwindset.items()))]
    if verbosity:
        cmd += ['--verbosity', str(verbosity)]
    t0 = time.time()

    def lim():
        os.setsid()
        resource.setrlimit(resource.RLIMIT_AS, (28 << 30, 28 << 30))
    with open(log + '.cmd', 'w') as cf:
        cf.write(' '.join(cmd) + '\n')
    with open(log, 'w') as lf:
        p = subprocess.Popen(cmd, stdout=lf, stderr=subprocess.STDOUT, preexec_fn=lim)
        try:
            p.wait(timeout=timeout)
            to = False
        except subprocess.TimeoutExpired:
            os.killpg(p.pid, signal.SIGKILL)
            p.wait()
            to = True
    res = {'wall': round(time.time() - t0, 1), 'timeout': to, 'results': {}, 'rss_mb': 0, 'verdict': None,
           'solver_s': 0.0, 'vars': 0, 'clauses': 0, 'steps': 0, 'symex_s': 0.0}
    cur_trace = None
    viol = None
    traces = {}
    with open(log, errors='replace') as lf:
        for line in lf:
            line = line.rstrip('\n')
            m = RES_RE.match(line)
            if m:
                res['results'][m.group(1)] = (re.sub(r'^(file \S+ )?line \d+ ', '', m.group(2)), m.group(3))
                continue
            if line.startswith('Trace for '):
                cur_trace = line[len('Trace for '):].rstrip(':')
                traces[cur_trace] = {}
                continue
            if line.startswith('Counterexample:'):       # --stop-on-fail: one trace, the property is named after it
                cur_trace = '__first_failure__'
                traces[cur_trace] = {}
                continue
            if line.startswith('Violated property:') and cur_trace == '__first_failure__':
                viol = 0
                continue
            if viol is not None:
                viol += 1
                if viol == 2:
                    res['results']['__first_failure__'] = (line.strip(), 'FAILURE')
                    viol = None
                continue
            if cur_trace is not None:
                mm = re.match(r'\s+vin\[(\d+)l?\]=(\d+)', line)
                if mm:
                    traces[cur_trace][int(mm.group(1))] = int(mm.group(2))
                    continue
            mv = re.match(r'VERIFICATION (SUCCESSFUL|FAILED|ERROR)', line)
            if mv:
                res['verdict'] = mv.group(1)     # (the memory figure of /usr/bin/time used to share this file and could land on this very line)
            elif line.startswith('RSSKB='):
                res['rss_mb'] = int(line[6:]) // 1024
            elif line.startswith('Runtime Solver:'):
                try:
                    res['solver_s'] += float(line.split(':')[1].strip().rstrip('s'))
                except ValueError:
                    pass
            elif line.startswith('Runtime Symex:'):
                try:
                    res['symex_s'] = float(line.split(':')[1].strip().rstrip('s'))
                except ValueError:
                    pass
            elif line.startswith('size of program expression:'):
                res['steps'] = int(line.split(':')[1].split()[0])
            else:
                mm = re.match(r'(\d+) variables, (\d+) clauses', line)
                if mm:
                    res['vars'], res['clauses'] = max(res['vars'], int(mm.group(1))), max(res['clauses'], int(mm.group(2)))
    try:
        mr = re.search(r'RSSKB=(\d+)', open(log + '.rss').read())
        if mr:
            res['rss_mb'] = int(mr.group(1)) // 1024
    except OSError:
        pass
    res['traces'] = {}
    for k, v in traces.items():
        lst = [v.get(i, 0) for i in range(max(v) + 1)] if v else []
        while lst and lst[-1] == 0:
            lst.pop()
        res['traces'][k] = lst
    if res['verdict'] is None and not to:
        tail = subprocess.run(['tail', '-c', '1500', log], stdout=subprocess.PIPE, text=True, errors='replace').stdout
        res['error'] = tail
    return res


def decide(u, q, defs, log_prefix, hints, note):
    """run one query to a conclusive answer: bump per-loop bounds while the only failures are unwinding
    assertions.  returns dict(status=holds|fails|inconclusive, failures=[(prop, desc, vin)], ...)"""
    unwindset = dict(hints)
    rounds = 0
    total_wall = 0.0
    peak = 0
    solver = 0.0
    while True:
        log = '%s.r%d.log' % (log_prefix, rounds)
        r = run_cbmc(u, q, defs, unwindset, min(int(q.timeout * float(os.environ.get('VERIF_TIMEOUT_SCALE', '1'))), int(os.environ.get('VERIF_TIMEOUT_CAP', '1000000'))), log)
        total_wall += r['wall']
        peak = max(peak, r['rss_mb'])
        solver += r['solver_s']
        base = {'wall': round(total_wall, 1), 'rss_mb': peak, 'rounds': rounds, 'solver_s': round(solver, 3),
                'vars': r['vars'], 'clauses': r['clauses'], 'steps': r['steps'], 'n_props': len(r['results']), 'log': log}
        if r['timeout']:
            # Some assertions may be hard to PROVE while another one has a cheap counterexample (C16 with a multiplicative mixer in the
            # hash): before giving up, hunt for a first failure only (no witness twins, --stop-on-fail, short budget).
            if not q.expect_fail and not q.trust_solver:
                h = run_cbmc(u, q, [d_ for d_ in defs if d_ != '-DWITNESS'], unwindset, min(300, q.timeout), log + '.hunt', extra=['--stop-on-fail'])
                ff = h['results'].get('__first_failure__')
                if h['verdict'] == 'FAILED' and ff and 'unwinding assertion' not in ff[0] and not ff[0].startswith('witness: '):
                    base['witnessed'] = []
                    note['hunt'] = 'full query timed out after %ds; first failure found by a --stop-on-fail run in %.0fs' % (q.timeout, h['wall'])
                    return dict(base, status='fails', failures=[('__first_failure__', ff[0], h['traces'].get('__first_failure__', []))], unwinding_incomplete=False)
            return dict(base, status='inconclusive', why='timeout after %ds' % q.timeout)
        if r['verdict'] is None:
            return dict(base, status='inconclusive', why='cbmc gave no verdict: ' + r.get('error', '')[-600:])
        if r['verdict'] not in ('SUCCESSFUL', 'FAILED'):
            return dict(base, status='inconclusive', why='cbmc: VERIFICATION %s (solver error / out of memory)' % r['verdict'])
        fails = [(k, v[0]) for k, v in r['results'].items() if v[1] == 'FAILURE']
        unw = [k for k, _ in fails if '.unwind.' in k]
        wit = sorted(set(d[len('witness: '):] for k, d in fails if d.startswith('witness: ')))
        base['witnessed'] = wit
        other = [(k, d) for k, d in fails if '.unwind.' not in k and not d.startswith('witness: ')]
        if other:
            return dict(base, status='fails', failures=[(k, d, r['traces'].get(k, [])) for k, d in other],
                        unwinding_incomplete=bool(unw))
        if not unw:
            return dict(base, status='holds')
        rounds += 1
        capped = []
        # the solver's own counterexamples tell what the path needs: re-profile them concretely (cheap) so that one round
        # learns every loop along that path, not just the first one that was too small
        cex = [r['traces'].get(k) for k in unw if r['traces'].get(k)]
        raised = set()
        if cex and q.profile is not None:
            try:
                tot = profile_unit(u, q, [d_ for d_ in defs if d_ != '-DWITNESS'], cex[:3], u.dir, unwind=q.hardcap + 2, workers=3)
                for lid, v in tot.items():
                    if v + 1 > unwindset.get(lid, q.unwind):
                        unwindset[lid] = min(v + 1, q.hardcap + 1)
                        raised.add(lid)
            except Exception:
                pass
        for k in unw:
            lid = k.replace('.unwind.', '.')
            if lid in raised:
                continue        # the concrete re-run of the counterexample told exactly what this loop needs
            cur = unwindset.get(lid, q.unwind)
            if re.match(r'(spec_|sp_|str_eq|res_same|main|inst|in_fill|ref_|oracle_)', lid):
                nxt = max(cur + 4, 12)     # harness-side reference code: cheap, be generous at once
            else:
                nxt = cur + (3 if cur < 8 else 5)
            if nxt > q.hardcap:
                capped.append(lid)
            unwindset[lid] = min(nxt, q.hardcap + 1)
        note.setdefault('bumped', {}).update({k.replace('.unwind.', '.'): unwindset[k.replace('.unwind.', '.')] for k in unw})
        if capped:
            tr = r['traces'].get([k for k in unw if k.replace('.unwind.', '.') in capped][0], [])
            return dict(base, status='unbounded', loops=capped, vin=tr, why='loop bound not converging below hard cap %d' % q.hardcap)
        if rounds > 10:
            return dict(base, status='inconclusive', why='loop bounds still growing after %d rounds: %s' % (rounds, unw[:4]))


def harness_loops(u, defs):
    """loop ids of the functions defined in the harness main (reference specification, oracles): these are cheap, so they
    get a generous bound up front instead of being discovered one unwinding assertion at a time"""
    cmd = ['cbmc', os.path.join(VERIF, u.main_c), '-I', TOOLS, '-I', u.dir] + u.inc + defs + ['--show-loops']
    p = subprocess.run(cmd, stdout=subprocess.PIPE, stderr=subprocess.STDOUT, text=True, errors='replace', timeout=120)
    return re.findall(r'^Loop (\S+):', p.stdout, re.M)


def all_loops(u, defs):
    """loop ids of the generated model (all.c)"""
    cmd = ['cbmc', os.path.join(u.dir, 'all.c'), '-I', TOOLS, '-I', u.dir] + u.inc + defs + ['--show-loops']
    p = subprocess.run(cmd, stdout=subprocess.PIPE, stderr=subprocess.STDOUT, text=True, errors='replace', timeout=300)
    return re.findall(r'^Loop (\S+):', p.stdout, re.M)


def profile_unit(u, q, defs, vins, work, unwind=40, workers=None):
    """developer tool: concrete runs with --verbosity 9 to learn per-loop trip counts"""
    tot = {}

    def one(iv):
        i, vin = iv
        d2 = defs + ['-DVIN_CONCRETE=%s' % ','.join(str(v) for v in (vin or [0]))]
        cmd = ['cbmc', os.path.join(u.dir, 'all.c'), os.path.join(TOOLS, 'ir2c_rt.c'), os.path.join(VERIF, u.main_c),
               '-I', TOOLS, '-I', u.dir] + u.inc + d2 + ['--object-bits', '12', '--no-malloc-may-fail', '--drop-unused-functions',
                                                '--no-standard-checks', '--unwind', str(unwind), '--verbosity', '9'] + list(q.extra_cbmc)
        try:
            p = subprocess.run(cmd, stdout=subprocess.PIPE, stderr=subprocess.STDOUT, text=True, errors='replace', timeout=180)
            out = p.stdout
        except subprocess.TimeoutExpired as e:
            out = e.stdout if isinstance(e.stdout, str) else (e.stdout or b'').decode(errors='replace')
        m = {}
        for mm in re.finditer(r'Unwinding loop (\S+) iteration (\d+)', out):
            m[mm.group(1)] = max(m.get(mm.group(1), 0), int(mm.group(2)))
        return m, 'VERIFICATION' in out
    with concurrent.futures.ThreadPoolExecutor(workers or min(NCPU, 12)) as ex:
        for m, ok in ex.map(one, enumerate(vins)):
            if not ok:
                print('  profile run gave no verdict', file=sys.stderr)
            for k, v in m.items():
                tot[k] = max(tot.get(k, 0), v)
    return tot


# ------------------------------------------------------------------ known findings
def load_findings(prop):
    p = os.path.join(VERIF, 'known_findings.json')
    if not os.path.exists(p):
        return []
    return [f for f in json.load(open(p)).get('findings', []) if f['property'] == prop]


# ------------------------------------------------------------------ the runner
class Runner:
    def __init__(self, prop, tier, units, level_text='', assumptions=(), rule='', bounds=None, outside=()):
        self.prop = prop
        self.tier = tier
        self.units = units
        self.assumptions = list(assumptions)
        self.rule = rule
        self.bounds = bounds or {}
        self.outside = list(outside)
        self.seed = int(os.environ.get('VERIF_SEED', '0') or 0)
        self.messages = []
        self.violations = []
        self.inconclusive = []
        self.known = []
        self.qrecords = []
        self.diff_runs = 0
        self.t0 = time.time()
        self.extra_cov = {}

    def say(self, s):
        print(s, flush=True)

    def run(self, keep=False):
        work = tempfile.mkdtemp(prefix='verif_%s_' % self.prop, dir=os.environ.get('VERIF_TMP', '/var/tmp'))
        self.work = work
        rc = 2
        try:
            rc = self._run(work)
        except Inconclusive as e:
            self.inconclusive.append(str(e))
            self.say('INCONCLUSIVE property=%s %s' % (self.prop, str(e)[:3000]))
            rc = 2
            if self.violations:
                # violations that were already established (reproduced on the g++ build of the real code) before the run had to stop
                for v in self.violations[:12]:
                    self.say('VIOLATION property=%s replay=%s' % (self.prop, v))
                rc = 1
        finally:
            try:
                self.write_evidence()
            finally:
                if not keep and not os.environ.get('VERIF_KEEP'):
                    shutil.rmtree(work, ignore_errors=True)
                else:
                    self.say('work dir kept: ' + work)
        return rc

    def _run(self, work):
        findings = load_findings(self.prop)
        active = [f for f in findings if f.get('status') == 'finding']
        kf_defs = ['-D%s' % f['define'] for f in active if f.get('define')]
        # 0. compile-time obligations (static_asserts about types): decided by the compiler, reported like any other violation
        for u in self.units:
            for ob in u.obligations:
                name, path, flags = ob[:3]
                only_if = ob[3] if len(ob) > 3 else None     # text the diagnostics must contain for the failure to count (the harness' own static_assert)
                cmd = ['g++', '-std=c++17', '-fsyntax-only', '-w', '-I', os.path.join(REPO, 'include'), '-I', TOOLS] + u.inc + list(flags) + [os.path.join(VERIF, path)]
                p = sh(cmd, check=False)
                if p.returncode != 0 and only_if and only_if not in p.stdout:
                    # the TU does not compile for another reason (e.g. the library now refuses this include order outright): nothing silent happened
                    self.messages.append('compile-time obligation "%s" not applicable on this tree: the TU is rejected for another reason: %s' % (name, p.stdout[-300:]))
                    self.extra_cov.setdefault('compile_obligations', []).append({'name': name, 'holds': None, 'note': 'TU rejected by the compiler for another reason'})
                    continue
                self.extra_cov.setdefault('compile_obligations', []).append({'name': name, 'holds': p.returncode == 0})
                if p.returncode != 0:
                    os.makedirs(os.path.join(EVID, 'replay'), exist_ok=True)
                    rp = os.path.join(EVID, 'replay', '%s_obligation_%s.json' % (self.prop, re.sub(r'\W', '_', name)))
                    json.dump({'property': self.prop, 'kind': 'compile-time obligation failed', 'name': name, 'command': cmd, 'diagnostics': p.stdout[-4000:],
                               'unit': u.name, 'defs': [], 'vin': [], 'assertion': name}, open(rp, 'w'), indent=1)
                    self.say('[%s]   compile-time obligation failed: %s\n%s' % (self.prop, name, p.stdout[-1500:]))
                    self.violations.append(rp)
        if self.violations:
            for v in self.violations:
                self.say('VIOLATION property=%s replay=%s' % (self.prop, v))
            return 1
        # 1. build all units (model)
        with concurrent.futures.ThreadPoolExecutor(4) as ex:
            list(ex.map(lambda u: build_model(u, work), self.units))
        for u in self.units:
            self.say('[%s] unit %s: model built, %d nitro functions encoded' % (self.prop, u.name, len(u.functions)))
        # 2. differential corpus: model-native vs real-native
        jobs = []
        for u in self.units:
            for ent in u.corpus:
                jobs.append((u, list(ent[0]), list(ent[1]), dict(ent[2]) if len(ent) > 2 else {}))
        if jobs:
            def diff(job):
                u, defs, vin, rtenv = job
                tag = defs_tag(defs)
                with _lock(u.name + tag):
                    er = os.path.join(u.dir, 'real_' + tag)
                    em = os.path.join(u.dir, 'model_' + tag)
                    if not os.path.exists(er):
                        build_native(u, u.dir, 'real', defs, tag)
                    if not os.path.exists(em):
                        build_native(u, u.dir, 'model', defs, tag)
                a = run_native(er, vin, rtenv=rtenv)
                b = run_native(em, vin, rtenv=rtenv)
                return job, a, b
            with concurrent.futures.ThreadPoolExecutor(NCPU) as ex:
                for (u, defs, vin, rtenv), a, b in ex.map(diff, jobs):
                    self.diff_runs += 1
                    if b[0] == 33:
                        raise Inconclusive('corpus input exceeds model capacity (unit %s defs %s vin %s %s)' % (u.name, defs, vin, rtenv))
                    if a[0] == 10 or a[0] in (66, 67, 124) or a[0] < 0 or a[0] >= 128:
                        # the g++/ASan build of the real code fails on a corpus input: that is a violation in its own right (found by
                        # the differential stage, before the solver is consulted); keep going so that the solver stage reports too
                        os.makedirs(os.path.join(EVID, 'replay'), exist_ok=True)
                        path = os.path.join(EVID, 'replay', '%s_%s_corpus_%d.json' % (self.prop, u.name, len(self.violations)))
                        how = ([l for l in a[1].split('\n') if l.startswith('CHECK-FAIL')] or ['sanitizer / crash rc=%d: %s' % (a[0], (re.findall(r'(?:ERROR: AddressSanitizer|runtime error):?[^\n]*', a[2]) or ['?'])[0])])[0]
                        json.dump({'property': self.prop, 'unit': u.name, 'query': 'differential corpus', 'defs': defs, 'vin': vin, 'rtenv': rtenv, 'assertion': how,
                                   'native_rc': a[0], 'native_stdout': a[1][-2000:], 'native_stderr': a[2][-3000:], 'how': 'corpus input fails on the g++ build of the real code'}, open(path, 'w'), indent=1)
                        self.say('[%s]   corpus input fails on the g++ build: %s (unit %s defs %s VIN=%s)' % (self.prop, how, u.name, ' '.join(defs), ','.join(map(str, vin))))
                        self.violations.append(path)
                        continue
                    if a[0] not in (0, 11) and a[0] != b[0]:
                        raise Inconclusive('native run of corpus input failed rc=%d (unit %s defs %s vin %s %s): %s' % (
                            a[0], u.name, defs, vin, rtenv, a[2][-800:]))
                    if (a[0], a[1]) != (b[0], b[1]):
                        raise Inconclusive('MODEL-DIVERGENCE on corpus input (unit %s defs %s vin %s %s):\n real rc=%d: %s\n model rc=%d: %s' % (
                            u.name, defs, vin, rtenv, a[0], a[1][-600:], b[0], b[1][-600:]))
            self.say('[%s] differential corpus: %d inputs, pipeline build == g++/libstdc++ build' % (self.prop, self.diff_runs))
        # 3. queries (+ witness twins)
        tasks = []
        for u in self.units:
            hints = load_hints(u)
            for q in u.queries:
                tasks.append((u, q, bool(q.witnesses), hints))
        est = max([t[1].est_gb for t in tasks] + [1])
        workers = max(1, min(NCPU, int(MEM_BUDGET_GB // est), len(tasks), int(os.environ.get('VERIF_WORKERS', '99') or 99)))
        self.say('[%s] %d cbmc queries (reachability witnesses are asserted in the same run and must fail), %d in parallel' % (
            self.prop, len(tasks), workers))

        def do(task):
            u, q, wit, hints = task
            note = {}
            defs = q.defs + kf_defs + (['-DWITNESS'] if wit else [])
            lp = os.path.join(u.dir, 'q_%s_%s' % (re.sub(r'\W', '_', q.name), 'w' if wit else 'm'))
            if q.profile:
                t0 = time.time()
                tot = profile_unit(u, q, q.defs + kf_defs, q.profile, u.dir, unwind=max(40, q.hardcap + 2), workers=2)
                hints = {k: v + 1 for k, v in tot.items() if v + 1 > q.unwind}
                for lid in harness_loops(u, q.defs + kf_defs):
                    hints[lid] = max(hints.get(lid, 0), q.harness_unwind)
                for pat, lo in (getattr(q, 'floor', None) or {}).items():
                    for lid in all_loops(u, q.defs + kf_defs):
                        if re.match(pat, lid):
                            hints[lid] = max(hints.get(lid, 0), lo)
                note['profile_runs'] = len(q.profile)
                note['profile_s'] = round(time.time() - t0, 1)
            r = decide(u, q, defs, lp, hints, note)
            r['note'] = note
            return task, r
        results = []
        # heaviest first, report as they finish
        tasks.sort(key=lambda t: -t[1].est_gb)
        with concurrent.futures.ThreadPoolExecutor(workers) as ex:
            for fut in concurrent.futures.as_completed([ex.submit(do, t) for t in tasks]):
                task, r = fut.result()
                results.append((task, r))
                u, q, wit, _ = task
                self.say('[%s]   %s/%s: %s  %.0fs %dMB rounds=%d witnesses=%d/%d' % (self.prop, u.name, q.name,
                                                                     r['status'], r['wall'], r['rss_mb'], r['rounds'],
                                                                     len(set(r.get('witnessed', [])) & set(q.witnesses)), len(q.witnesses)))
        # 4. interpret
        by_q = {}
        for (u, q, wit, _), r in results:
            by_q.setdefault((u.name, q.name), {})['m'] = (u, q, r)
        for key, d in sorted(by_q.items()):
            u, q, r = d['m']
            rec = {'unit': u.name, 'query': q.name, 'defs': q.defs, 'status': r['status'], 'wall_s': r['wall'], 'rss_mb': r['rss_mb'],
                   'solver_s': r['solver_s'], 'sat_vars': r['vars'], 'sat_clauses': r['clauses'], 'ssa_steps': r['steps'], 'cbmc_properties': r['n_props'],
                   'unwind_default': q.unwind, 'unwind_bumped': r['note'].get('bumped', {}), 'loop_bound_profile_runs': r['note'].get('profile_runs', 0), 'witnesses_required': q.witnesses,
                   'witnesses_confirmed': []}
            if q.sample is not None:
                rec['shape'] = q.sample
            self.qrecords.append(rec)
            if r['status'] == 'inconclusive':
                self.inconclusive.append('%s/%s: %s' % (u.name, q.name, r['why']))
                continue
            if r['status'] == 'unbounded':
                self._replay(u, q, kf_defs, 'loop bound', 'unwinding assertion does not converge: %s' % ','.join(r['loops']), r.get('vin', []), rec,
                             hang=True)
                continue
            if q.expect_fail:
                rec['negative_control'] = True
                if r['status'] != 'fails':
                    self.inconclusive.append('negative control %s/%s was not refuted (status %s): the harness cannot see the defect class it is meant to detect' % (u.name, q.name, r['status']))
                else:
                    rec['negative_control_refuted'] = True
                continue
            if r['status'] == 'fails' and any(d_.startswith('model limit:') for _, d_, _ in r['failures']):
                # the run reached something the model does not interpret: every other counterexample of this query is untrustworthy
                self.inconclusive.append('%s/%s: %s' % (u.name, q.name, [d_ for _, d_, _ in r['failures'] if d_.startswith('model limit:')][0]))
                continue
            if r['status'] == 'fails':
                seen = set()
                for prop, desc, vin in r['failures']:
                    if desc in seen:
                        continue
                    seen.add(desc)
                    self._replay(u, q, kf_defs, prop, desc, vin, rec)
            if q.witnesses:
                got = set(r.get('witnessed', []))
                rec['witnesses_confirmed'] = sorted(got & set(q.witnesses))
                miss = [w for w in q.witnesses if w not in got]
                for w in [w for w in miss if w in q.required_sat]:
                    self._unsat_witness(u, q, kf_defs, w, rec)
                miss = [w for w in miss if w not in q.required_sat]
                if miss:
                    self.inconclusive.append('VACUOUS: %s/%s cannot reach %s' % (u.name, q.name, miss))
        # 5. known findings: reproduce each witness on the real build
        for f in active:
            self._known(f)
        for f in findings:
            if f.get('status') == 'fixed':
                self.messages.append('fixed: property=%s %s %s' % (self.prop, f.get('commit', ''), f['what']))
        if self.violations:
            for v in self.violations[:12]:
                self.say('VIOLATION property=%s replay=%s' % (self.prop, v))
            if len(self.violations) > 12:
                self.say('[%s] ... and %d more violations (all replay files are under %s)' % (self.prop, len(self.violations) - 12, os.path.join(EVID, 'replay')))
            return 1
        if self.inconclusive:
            for s in self.inconclusive:
                self.say('INCONCLUSIVE property=%s %s' % (self.prop, s[:2000]))
            return 2
        self.say('[%s] holds on everything explored (%d queries)' % (self.prop, len(self.qrecords)))
        return 0

    def _native(self, u, defs):
        tag = defs_tag(defs)
        with _lock(u.name + tag):
            er = os.path.join(u.dir, 'real_' + tag)
            if not os.path.exists(er):
                build_native(u, u.dir, 'real', defs, tag)
        return er

    def _replay(self, u, q, kf_defs, prop, desc, vin, rec, hang=False):
        defs = q.defs + kf_defs
        if q.trust_solver and not hang and (desc.startswith('vstd model:') or desc.startswith('model limit:')):
            # not a property failure: the run reached something the model does not interpret (e.g. synchronisation through atomics in C09)
            self.inconclusive.append('%s/%s: %s' % (u.name, q.name, desc))
            return
        if q.trust_solver and not hang and q.confirm is not None:
            ok, how = q.confirm(self, u, q, desc, vin)
            rec.setdefault('counterexamples', []).append({'cbmc_property': prop, 'desc': desc, 'vin': vin, 'reproduced': ok, 'how': how})
            if not ok:
                # a candidate of a deliberately over-approximating query that the real code does not bear out: dropped, no alarm
                self.messages.append('candidate counterexample of %s/%s not confirmed on the real code (%s): discarded' % (u.name, q.name, how))
                self.say('[%s]   candidate (%s/%s) not confirmed on the real code: %s' % (self.prop, u.name, q.name, how))
                return
            os.makedirs(os.path.join(EVID, 'replay'), exist_ok=True)
            path = os.path.join(EVID, 'replay', '%s_%s_%s_%d.json' % (self.prop, u.name, re.sub(r'\W', '_', q.name), len(self.violations)))
            json.dump({'property': self.prop, 'unit': u.name, 'query': q.name, 'defs': defs, 'vin': vin, 'cbmc_property': prop, 'assertion': desc, 'how': how},
                      open(path, 'w'), indent=1)
            self.say('[%s]   solver counterexample (schedule) confirmed on the real code: %s | %s' % (self.prop, desc, how[:400]))
            self.violations.append(path)
            return
        if q.trust_solver and not hang:
            os.makedirs(os.path.join(EVID, 'replay'), exist_ok=True)
            path = os.path.join(EVID, 'replay', '%s_%s_%s_%d.json' % (self.prop, u.name, re.sub(r'\W', '_', q.name), len(self.violations)))
            json.dump({'property': self.prop, 'unit': u.name, 'query': q.name, 'defs': defs, 'vin': vin, 'cbmc_property': prop, 'assertion': desc,
                       'how': 'counterexample from the solver (inputs and schedule choices in vin, in the order the harness draws them); this harness quantifies over '
                              'thread schedules, which an ordinary native run cannot be forced to follow, so the trace is reported without native replay'},
                      open(path, 'w'), indent=1)
            rec.setdefault('counterexamples', []).append({'cbmc_property': prop, 'desc': desc, 'vin': vin, 'reproduced': None, 'how': 'schedule counterexample, not natively replayable'})
            self.say('[%s]   solver counterexample (schedule): %s | VIN=%s' % (self.prop, desc, ','.join(map(str, vin))))
            self.violations.append(path)
            return
        exe = self._native(u, defs)
        rc, out, err = run_native(exe, vin, timeout=10 if hang else 20)
        confirmed = False
        how = ''
        if hang and rc == 124:
            confirmed, how = True, 'native run does not return within 10 s'
        elif rc == 10 and 'CHECK-FAIL' in out:
            confirmed, how = True, [l for l in out.split('\n') if l.startswith('CHECK-FAIL')][0]
        elif rc in (66, 67) or 'AddressSanitizer' in err or 'runtime error' in err:
            confirmed, how = True, 'sanitizer: ' + (re.findall(r'(?:ERROR: AddressSanitizer|runtime error):?[^\n]*', err) or ['?'])[0]
        elif rc == 124:
            confirmed, how = True, 'native run hangs'
        elif rc < 0 or rc >= 128:
            confirmed, how = True, 'native run crashed rc=%d' % rc
        rec.setdefault('counterexamples', []).append({'cbmc_property': prop, 'desc': desc, 'vin': vin, 'native_rc': rc,
                                                      'reproduced': confirmed, 'how': how})
        if confirmed:
            os.makedirs(os.path.join(EVID, 'replay'), exist_ok=True)
            path = os.path.join(EVID, 'replay', '%s_%s_%s_%d.json' % (self.prop, u.name, re.sub(r'\W', '_', q.name), len(self.violations)))
            json.dump({'property': self.prop, 'unit': u.name, 'query': q.name, 'defs': defs, 'vin': vin, 'cbmc_property': prop,
                       'assertion': desc, 'native_rc': rc, 'native_stdout': out[-2000:], 'native_stderr': err[-3000:], 'how': how},
                      open(path, 'w'), indent=1)
            self.say('[%s]   counterexample reproduced on the g++ build: %s | %s | VIN=%s' % (self.prop, desc, how, ','.join(map(str, vin))))
            self.violations.append(path)
        else:
            self.inconclusive.append('MODEL-DIVERGENCE: solver counterexample for "%s" (%s/%s VIN=%s) does not reproduce on the native build (rc=%d, %s)' % (
                desc, u.name, q.name, ','.join(map(str, vin)), rc, (out + err)[-300:]))

    def _unsat_witness(self, u, q, kf_defs, w, rec):
        """an existential claim ("there are values for which ...") came back UNSAT: confirm on the native build by sampling"""
        import random
        exe = self._native(u, q.defs + kf_defs)
        rnd = random.Random(12345)
        reached = False
        tried = 0
        for i in range(300):
            vin = [rnd.choice([0, 1, 2, 3, 255, rnd.getrandbits(32), rnd.getrandbits(8)]) for _ in range(24)]
            rc, out, err = run_native(exe, vin)
            if rc in (0, 10):
                tried += 1
                if ('WITNESS ' + w) in out:
                    reached = True
                    break
        rec.setdefault('counterexamples', []).append({'existential_claim_unsat': w, 'native_samples': tried, 'native_found_witness': reached})
        if reached:
            self.inconclusive.append('MODEL-DIVERGENCE: solver says "%s" is impossible but the native build exhibits it' % w)
            return
        os.makedirs(os.path.join(EVID, 'replay'), exist_ok=True)
        path = os.path.join(EVID, 'replay', '%s_%s_%s_%d.json' % (self.prop, u.name, re.sub(r'\W', '_', q.name), len(self.violations)))
        json.dump({'property': self.prop, 'unit': u.name, 'query': q.name, 'defs': q.defs + kf_defs, 'vin': [], 'kind': 'existential claim refuted',
                   'assertion': 'no values exist for which: ' + w, 'native_samples_without_witness': tried,
                   'how': 'the solver proved the witness unreachable for ALL inputs; %d random native runs agree' % tried}, open(path, 'w'), indent=1)
        self.say('[%s]   existential claim refuted for all inputs: "%s" (confirmed by %d native samples)' % (self.prop, w, tried))
        self.violations.append(path)

    def _known(self, f):
        u = [x for x in self.units if x.name == f['unit']]
        if not u:
            return
        u = u[0]
        exe = self._native(u, f.get('defs', []))
        rc, out, err = run_native(exe, f['vin'])
        if rc not in (0, 11):
            self.say('KNOWN-FINDING: property=%s %s' % (self.prop, f['what']))
            self.known.append(f['id'])
        else:
            self.messages.append('known finding %s no longer reproduces on this tree' % f['id'])

    def write_evidence(self):
        decided = [r for r in self.qrecords if r['status'] in ('holds', 'fails', 'unbounded')]
        nontrivial = [r for r in decided if r['witnesses_required'] and set(r['witnesses_required']) <= set(r['witnesses_confirmed'])]
        funcs = sorted(set(f for u in self.units for f in u.functions))
        funcs0 = sorted(set(f for u in self.units for f in getattr(u, 'functions_pre_inlining', [])))
        samples = []
        for r in self.qrecords[:6]:
            samples.append({'query': r['unit'] + '/' + r['query'], 'shape': r.get('shape', r['defs']), 'status': r['status'],
                            'witnesses_confirmed': r['witnesses_confirmed'], 'counterexamples': r.get('counterexamples', [])[:2]})
        ev = {
            'property_id': self.prop, 'tier': self.tier, 'seed': self.seed, 'level': 'model_checking',
            'coverage': dict({
                'evaluations': len(decided),
                'distinct_nontrivial': len(nontrivial),
                'rule': self.rule or 'one evaluation = one CBMC query (a concrete shape of the harness with every input byte/word symbolic) decided '
                        'by the SAT solver with unwinding assertions on; non-trivial = its -DWITNESS twin showed every listed outcome class reachable',
                'samples': samples or [{'note': 'no query ran'}],
                'exhaustive': False,
                'technique': 'bounded model checking (CBMC 6.11 / SAT) of C generated from the clang-14 -O1 LLVM IR of the real nitro sources',
                'functions_encoded': funcs0 or funcs,
                'functions_encoded_note': 'nitro:: functions reachable from the harness entry points in the -O0 IR of the same translation units (the -O1 IR that is translated inlines most of them into their callers); %d remain as separate functions after -O1' % len(funcs),
                'bounds': self.bounds,
                'outside_the_claim': self.outside,
                'queries': self.qrecords,
                'queries_issued': len(self.qrecords),
                'queries_decided': len(decided),
                'queries_inconclusive': len(self.qrecords) - len(decided),
                'solver_time_s': round(sum(r['solver_s'] for r in self.qrecords), 1),
                'cbmc_wall_s_total': round(sum(r['wall_s'] for r in self.qrecords), 1),
                'peak_rss_mb': max([r['rss_mb'] for r in self.qrecords] + [0]),
                'differential_corpus_runs': self.diff_runs,
                'counterexamples_replayed_natively': sum(len(r.get('counterexamples', [])) for r in self.qrecords),
                'known_findings_reproduced': self.known,
                'inconclusive': self.inconclusive,
                'messages': self.messages,
            }, **self.extra_cov),
            'assumptions': self.assumptions + [
                'clang-14 -O1 lowering of the current /repo sources; std containers/streams/regex replaced by the vstd model (validated per run by the differential corpus and by native replay of every counterexample)',
                'allocation never fails (--no-malloc-may-fail)'],
            'wall_s': round(time.time() - self.t0, 1),
            'violations': len(self.violations),
        }
        os.makedirs(EVID, exist_ok=True)
        json.dump(ev, open(os.path.join(EVID, '%s.json' % self.prop), 'w'), indent=1)
