#!/usr/bin/env python3
"""run the repository's own test suite (guard off) and compare with /root/.vp/BASELINE.json stable_pass"""
import json, os, re, subprocess, sys
import xml.etree.ElementTree as ET
B = '/repo/_build'
subprocess.run(['cmake', '--build', B], stdout=subprocess.DEVNULL, stderr=subprocess.STDOUT, check=True)
out = subprocess.run(['ctest', '-N', '-V'], cwd=B, stdout=subprocess.PIPE, text=True).stdout
cmds = re.findall(r'Test command: (\S+)', out)
passed = set()
ctf = open(os.path.join(B, 'tests', 'CTestTestfile.cmake')).read()
for c in cmds:
    env = dict(os.environ)
    m = re.search(r'set_tests_properties\(%s PROPERTIES\s+ENVIRONMENT "((?:[^"\\]|\\.)*)"' % re.escape(os.path.basename(c)), ctf)
    if m:
        for kv in re.split(r'(?<!\\);', m.group(1)):
            if '=' in kv:
                k, v = kv.split('=', 1)
                env[k] = re.sub(r'\\+;', ';', v)
    x = subprocess.run([c, '-r', 'junit'], cwd=os.path.dirname(c), stdout=subprocess.PIPE, stderr=subprocess.DEVNULL, text=True, env=env).stdout
    try:
        root = ET.fromstring(x)
    except ET.ParseError:
        continue
    for ts in root.iter('testsuite'):
        for tc in ts.iter('testcase'):
            if tc.find('failure') is None and tc.find('error') is None:
                passed.add('%s.%s::%s' % (ts.get('name'), tc.get('classname').split('.')[-1] if tc.get('classname') else 'global', tc.get('name')))
base = set(json.load(open('/root/.vp/BASELINE.json'))['stable_pass'])
missing = sorted(base - passed)
print('baseline tests: %d, passing now: %d, missing: %d' % (len(base), len(base & passed), len(missing)))
for m in missing[:20]:
    print('  MISSING', m)
sys.exit(1 if missing else 0)
