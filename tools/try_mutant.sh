#!/bin/bash
# usage: try_mutant.sh <worktree-with-patch-applied> <tag> <property>...   -- runs the quick checks against a scratch copy of the repository
# (VERIF_REPO) and writes evidence / replay files under /var/tmp/mut_evidence/<tag> so that the committed evidence is not touched
WT=$1; TAG=$2; shift 2
mkdir -p /var/tmp/mut_evidence/$TAG
for P in "$@"; do
  echo "--- $TAG: $P"
  ( cd /verif && time VERIF_REPO=$WT VERIF_EVIDENCE_DIR=/var/tmp/mut_evidence/$TAG ./check $P ${MUT_ONLY:+--only $MUT_ONLY} ) 2>&1 | grep -E "VIOLATION|INCONCLUSIVE|holds on|reproduced|refuted|obligation|real" | cut -c1-300
done
