/* vharness.h -- one harness main, three builds.
 *
 *   cbmc      (__CPROVER__):  inputs are nondeterministic, CHECK is an assertion the solver must prove,
 *                             WITNESS(c, name) (only with -DWITNESS) asserts !(c) and MUST FAIL (reachability / vacuity guard)
 *   native    (-DNATIVE):     linked with the g++/libstdc++ build of the real nitro code; inputs come from the
 *                             environment variable VIN ("v0,v1,..." decimal); CHECK prints CHECK-FAIL and sets exit code 10
 *   modelnat  (-DNATIVE):     same main, linked with the gcc-compiled output of ir2c (differential test of model + translator)
 *
 * All inputs are drawn through in_u32()/in_u8(); under CBMC they are mirrored into vin[] so that a
 * counterexample trace can be turned into a VIN string and replayed.
 */
#ifndef VHARNESS_H
#define VHARNESS_H
#include "ir2c_rt.h"
#ifndef VIN_MAX
#define VIN_MAX 64
#endif

#ifdef __CPROVER__
u32 nondet_u32(void);
static u32 vin[VIN_MAX];
static u32 vin_n;
#ifdef VIN_CONCRETE
static const u32 vin_fixed[] = { VIN_CONCRETE, 0 };
static inline u32 in_u32(void) { u32 v = (vin_n < sizeof(vin_fixed) / sizeof(vin_fixed[0]) - 1) ? vin_fixed[vin_n] : 0; vin[vin_n++] = v; return v; }
#else
static inline u32 in_u32(void) { u32 v = nondet_u32(); vin[vin_n] = v; vin_n++; return v; }
#endif
#define ASSUME(c) __CPROVER_assume(c)
#define CHECK(c, msg) __CPROVER_assert((c), msg)
#ifdef WITNESS
#define WITNESS_AT(c, name) __CPROVER_assert(!(c), "witness: " name)
#else
#define WITNESS_AT(c, name) ((void)0)
#endif
#define OBS(...) ((void)0)
#define OBS_STR(tag, p, n) ((void)0)
#define HARNESS_END() return 0

#else /* native */
#include <stdio.h>
#include <stdlib.h>
static u32 vin[VIN_MAX];
static u32 vin_n, vin_have;
static int v_fail;
static void vin_load(void)
{
    static int done;
    if (done) return;
    done = 1;
    /* read VIN from environ directly: getenv itself may be wrapped by the harness (env stubs) */
    extern char** environ;
    const char* s = 0;
    for (char** e = environ; e && *e; ++e)
        if ((*e)[0] == 'V' && (*e)[1] == 'I' && (*e)[2] == 'N' && (*e)[3] == '=') s = *e + 4;
    while (s && *s && vin_have < VIN_MAX) {
        vin[vin_have++] = (u32)strtoul(s, (char**)&s, 10);
        if (*s == ',') ++s;
    }
}
static inline u32 in_u32(void) { vin_load(); u32 v = vin_n < vin_have ? vin[vin_n] : 0; vin_n++; return v; }
/* run-time shape parameters of native builds (so that one native binary serves a whole corpus): V_<key>=<value> */
static const char* v_env(const char* key)
{
    extern char** environ;
    size_t kl = strlen(key);
    for (char** e = environ; e && *e; ++e)
        if ((*e)[0] == 'V' && (*e)[1] == '_' && strncmp(*e + 2, key, kl) == 0 && (*e)[2 + kl] == '=') return *e + 3 + kl;
    return 0;
}
#define ASSUME(c) do { if (!(c)) { printf("ASSUME-FALSE %s\n", #c); exit(11); } } while (0)
#define CHECK(c, msg) do { if (!(c)) { printf("CHECK-FAIL %s\n", msg); v_fail = 1; } } while (0)
#define WITNESS_AT(c, name) do { if (c) printf("WITNESS %s\n", name); } while (0)
#define OBS(...) printf(__VA_ARGS__)
#define OBS_STR(tag, p, n) do { printf("%s=", tag); for (u32 i_ = 0; i_ < (u32)(n); ++i_) printf("%02x", (unsigned)((const u8*)(p))[i_]); printf("\n"); } while (0)
#define HARNESS_END() return v_fail ? 10 : 0
#endif

static inline u8 in_u8(void) { return (u8)in_u32(); }
/* a symbolic byte that is never NUL (C strings) */
static inline u8 in_ch(void) { u8 c = in_u8(); ASSUME(c != 0); return c; }
static inline u32 in_range(u32 lo, u32 hi) { u32 v = in_u32(); ASSUME(v >= lo && v <= hi); return v; }
static inline void in_fill(u8* t, u32 len) { for (u32 j = 0; j < len; ++j) t[j] = in_ch(); t[len] = 0; }
#endif
