#!/usr/bin/env python3
"""regenerates /verif/MANIFEST.json from the table below (one place to keep it consistent)"""
import json, os
HERE = os.path.dirname(os.path.dirname(os.path.abspath(__file__)))
TECH = 'bounded model checking: clang-14 LLVM IR of the real nitro sources -> C (ir2c) -> CBMC 6.11/SAT, all inputs symbolic within stated bounds, unwinding assertions on, counterexamples replayed on the g++/ASan build'
NOTE = ('Trusted: clang-14 -O1 lowering; the vstd model of std::string/vector/map/stringstream/regex (differentially tested against the g++/libstdc++ build on a corpus in every run; every counterexample is replayed on the real library before it is reported); '
        'tools/ir2c.py; CBMC + SAT solver. Allocation failure out of scope. Holds only inside the bounds recorded in the evidence file.')
CLAIMED = {
    'C01': ('6', 'parser::parse on declaration tables vs. the reference CLI specification (spec/cli_spec.h): for every argument vector matching the token templates (symbolic bytes) success implies that the specification accepts it and all toggle counts / positionals / option presence agree, i.e. no token or bundle letter was dropped.'),
    'C04': ('6', 'parse() leaves only by returning or by parsing_error, and raises exactly when the reference specification says USER_ERROR, for every argument vector / environment string matching the templates; CBMC bounds and pointer checks inside nitro code play the role of the sanitizers.'),
    'C06': ('6', 'one fixed_vector operation from an arbitrary reachable state (capacity, contents, stale slots, arguments, index all symbolic) and enumerated operation sequences with symbolic arguments: size<=capacity, raises exactly when unsatisfiable, failed operation leaves the container unchanged, instance-counting elements with a symbolic throwing copy/move are neither leaked nor destroyed twice; CBMC object bounds = no access outside the slots.'),
    'C07': ('6', 'same harness as C06 with a reference bounded list: contents, forward and reverse iteration, copy independence, move transfer and the three assignments are compared after the operation / after every step of enumerated sequences.'),
    'C08': ('6', 'nitro::format against a 15-line reference scanner for every format string up to the length bound (all bytes symbolic) and symbolic arguments, both supply styles and three read-out paths; exception message == concatenation.'),
    'C02': ('6', 'renderings of an assignment (long/short/= forms, bundled toggles, permutations, --) are enumerated outside the solver; inside each every value byte is symbolic (empty values, embedded =, blanks, non-ASCII, line breaks): every spelling must parse and every value / list / count / positional / provided flag must equal what the reference specification derives from the same vector. Typed access: arguments::as<int/long long/unsigned> after a real parse returns the number spelled by 1..3 (thorough 4) symbolic decimal digits with optional sign (the integer extraction itself is the stream model).'),
    'C03': ('6', 'kind x {given, not given} x {env unset, env any string incl. empty} x {default or not} x {optional or required} configurations enumerated outside; environment content and command-line values symbolic; value source ranking, verbatim delivery, ; splitting, provided flags and the required/optional outcome are compared with the reference specification.'),
    'C05': ('6', 'logger instantiated with a counting formatter and a recording sequence sink; (compile-time minimum x filter expression x severity) grid enumerated outside, both runtime thresholds and all streamed content symbolic: exactly-once iff enabled, severity/tag/message delivered unaltered, sequence members in order, two statements in program order.'),
    'C09': ('6', 'each thread body (real sink / logger code) is executed against an event-recording mutex + non-thread-safe device model; a symbolic scheduler interleaves the per-thread event lists in EVERY way inside one CBMC query; device content must equal the records whole, once each, in the order their insertions began; no deadlock.'),
    'C10': ('6', 'same grid as C05 (quick: the grid points that stream a lazily evaluated callable), including a change of both runtime thresholds between two statements of one severity: a statement below the compile-time minimum or rejected by the filter evaluates no lazily streamed callable and reaches neither formatter nor sink; an emitted one calls each callable exactly once where it was streamed. The type-level half (statement type == null_stream below the minimum) is a static_assert per minimum, decided by the compiler and reported as a violation if it fails.'),
    'C11': ('6', 'toggle counts over symbolic tokens (bundles, --no-<name>, conflicts in both orders) and the closed environment vocabulary for every byte string up to 8 bytes, against the reference specification.'),
    'C12': ('6', 'positionals verbatim and in order, everything after the first -- and (greedy) after the first positional is positional whatever its bytes, limit boundary for limits 0/1/2/unlimited, and arguments::get(int)/operator[] for every index in [-n-1, n].'),
    'C13': ('6', 'short-name rules, re-declaration across groups and kinds (also after moving the parser and destroying the source object) and letter uniqueness, with symbolic one-byte names and letters on concrete declaration structures; CBMC dead-object checks replace ASan.'),
    'C14': ('6', 'two parse calls on one parser object (one argument vector symbolic, the other concrete, both orders; environment bound or not): the second outcome and every observable must equal those of a freshly built identical parser.'),
    'C15': ('6', 'parser::usage() on four concrete declaration shapes (quick: two): text on a fresh stream == text after a symbolic number (0..8, 0..3 for the larger shape in quick) of prior bytes == text on the non-seekable cout model, byte for byte; on that text: every declaration once, in group-creation and declaration order, hints shown, no line over 80 columns. The wrapping law with symbolic word lengths was measured out of reach (26 GB) and is not claimed.'),
    'C20': ('6', 'enumerate / reverse over 20 (adaptor x container kind x value category) combinations, length 0..3 and values symbolic: exactly n visits, index/value pairs in (reverse) order, aliasing and write-through for lvalue ranges, temporaries alive for the whole loop (CBMC dead-object checks).'),
    'C16': ('6', 'six operators of a tuple_operators type vs. lexicographic reference over all pairs of full-width symbolic member tuples, trichotomy/transitivity over triples, equal => equal hash, last-component injectivity (universal) and per-component / order sensitivity as existential queries whose unsatisfiability is reported as a violation.'),
    'C17': ('6', 'split/join/replace_all/starts_with against naive reference scanners for every byte string inside the length bounds (haystack <= 4 quick / 5 thorough, needle <= 2, replacement <= 2, join of <= 3 elements): the solver decides each law for all byte values; termination of replace_all is the unwinding assertion of its loop.'),
    'C18': ('6', 'quaint_ptr ownership histories (first two operation kinds enumerated, the rest symbolic) with per-object destructor counters by type, and optional<T> histories against a {has,value} reference with an instance-counting T.'),
    'C19': ('6', 'env::get for symbolic names/values/defaults against a getenv stub; dl/symbol lifetimes against a counting loader stub: operation sequences and slots are enumerated outside the solver, the solver decides the loader failure of one designated step; after every step a handle is open exactly while an owner refers to it, dlclose exactly once.'),
}
PENDING = {}
props = [json.loads(l)['id'] for l in open(os.path.join(HERE, 'properties.jsonl'))]
hooks = {"guard": "NITRO_VERIF",
         "enable": "checks compile the /repo sources with -DNITRO_VERIF (plus -DNITRO_VERIF_NO_MESSAGES for harnesses whose subject is not exception text); the cmake build never defines it",
         "baseline_off_cmd": "python3 /verif/tools/baseline_check.py",
         "source_commits": ["92a6362"], "add_only": True}
checks = []
for p in props:
    if p in CLAIMED:
        sec, text = CLAIMED[p]
        checks.append({"property_id": p, "quick_cmd": "./check %s --tier quick" % p, "thorough_cmd": "./check %s --tier thorough" % p,
                       "evidence_file": "/verif/evidence/%s.json" % p, "replay_cmd_template": "./check %s --replay {path}" % p,
                       "engine": "ir2c+cbmc", "level_claimed": {"category": "model_checking", "text": text, "design_ref": "DESIGN.md section 6, " + p},
                       "level_note": NOTE, "technique": TECH})
na = [{"property_id": p, "reason": PENDING.get(p, "check not built yet (framework under construction); planned, see DESIGN.md section 6")}
      for p in props if p not in CLAIMED]
m = {"version": 1, "setup_cmd": "./setup.sh", "hooks": hooks,
     "engines": [{"name": "ir2c+cbmc", "path": "tools/", "serves_properties": sorted(CLAIMED),
                  "kind_free_text": "clang-14 LLVM IR of the real nitro sources -> C (tools/ir2c.py) -> CBMC 6.11 bounded model checking (SAT); vstd/ is the solver-friendly model of the std containers/streams"}],
     "checks": checks, "notes": "see DESIGN.md; known_findings.json lists genuine defects (fixed ones name their fix: commit)", "not_applicable": na}
json.dump(m, open(os.path.join(HERE, 'MANIFEST.json'), 'w'), indent=1)
print('MANIFEST.json: %d checks, %d not_applicable' % (len(checks), len(na)))
