#!/usr/bin/env python3
"""ir2c: lower LLVM-14 textual IR (typed pointers, clang -O1) to plain C for CBMC.

Scope: integer/pointer code, structs/arrays, calls (direct, indirect), C++ EH
(invoke/landingpad/resume lowered to a pending-exception flag), the memory
intrinsics and a handful of arithmetic intrinsics.  Anything else raises
Unsupported, so that a check can say "inconclusive" instead of guessing.
"""
import re
import sys


class Unsupported(Exception):
    pass


LEAK_ON_UNWIND = False
ATOMICS_ARE_MODEL_LIMIT = False   # C09: the scheduler model interprets mutex and device events only; code that synchronises through atomics is outside it
BLOCK_SCOPE = True


# ---------------------------------------------------------------- tokenizer
TOK = re.compile(r'''
    (?P<ws>\s+)
  | (?P<cstr>c"(?:[^"\\]|\\[0-9A-Fa-f]{2}|\\\\)*")
  | (?P<str>"(?:[^"\\]|\\.)*")
  | (?P<local>%(?:"(?:[^"\\]|\\.)*"|[-a-zA-Z$._0-9]+))
  | (?P<glob>@(?:"(?:[^"\\]|\\.)*"|[-a-zA-Z$._0-9]+))
  | (?P<meta>![-a-zA-Z$._0-9]*)
  | (?P<attr>\#[0-9]+)
  | (?P<num>-?[0-9]+(?:\.[0-9]+(?:e[+-]?[0-9]+)?)?)
  | (?P<hex>0x[0-9A-Fa-f]+)
  | (?P<dots>\.\.\.)
  | (?P<word>[a-zA-Z_][a-zA-Z_0-9.]*)
  | (?P<punct>[()\[\]{}<>,=*:])
''', re.X)


def tokenize(s):
    out = []
    pos = 0
    n = len(s)
    while pos < n:
        if s[pos] == ';':
            break
        m = TOK.match(s, pos)
        if not m:
            raise Unsupported('cannot tokenize: %r' % s[pos:pos + 40])
        pos = m.end()
        k = m.lastgroup
        if k == 'ws':
            continue
        out.append((k, m.group(k)))
    return out


# ---------------------------------------------------------------- types
class Ty:
    pass


class IntTy(Ty):
    def __init__(s, bits):
        s.bits = bits

    def key(s):
        return 'i%d' % s.bits


class FloatTy(Ty):
    def __init__(s, name):
        s.name = name          # 'float' | 'double'
        s.bits = 32 if name == 'float' else 64

    def key(s):
        return s.name


class VoidTy(Ty):
    def key(s):
        return 'void'


class PtrTy(Ty):
    def __init__(s, to):
        s.to = to

    def key(s):
        return s.to.key() + '*'


class ArrTy(Ty):
    def __init__(s, n, el):
        s.n = n
        s.el = el

    def key(s):
        return '[%d x %s]' % (s.n, s.el.key())


class StructTy(Ty):
    def __init__(s, fields, packed=False, name=None):
        s.fields = fields
        s.packed = packed
        s.name = name

    def key(s):
        if s.name:
            return s.name
        return ('<{%s}>' if s.packed else '{%s}') % ','.join(f.key() for f in s.fields)


class FnTy(Ty):
    def __init__(s, ret, params, vararg):
        s.ret = ret
        s.params = params
        s.vararg = vararg

    def key(s):
        return '%s(%s%s)' % (s.ret.key(), ','.join(p.key() for p in s.params),
                             ',...' if s.vararg else '')


class OpaqueTy(Ty):
    def __init__(s, name):
        s.name = name

    def key(s):
        return s.name


class LabelTy(Ty):
    def key(s):
        return 'label'


class Parser:
    """token stream over one logical line"""

    def __init__(s, toks, mod):
        s.t = toks
        s.i = 0
        s.mod = mod

    def peek(s, k=0):
        return s.t[s.i + k] if s.i + k < len(s.t) else (None, None)

    def next(s):
        tok = s.peek()
        s.i += 1
        return tok

    def accept(s, val):
        if s.peek()[1] == val:
            s.i += 1
            return True
        return False

    def expect(s, val):
        tok = s.next()
        if tok[1] != val:
            raise Unsupported('expected %r got %r in %r' % (val, tok, s.t[:12]))

    def at_end(s):
        return s.i >= len(s.t)

    # ---- types
    def parse_type(s):
        k, v = s.next()
        if k == 'word':
            if v == 'void':
                t = VoidTy()
            elif re.fullmatch(r'i[0-9]+', v):
                t = IntTy(int(v[1:]))
            elif v == 'label':
                t = LabelTy()
            elif v in ('float', 'double'):
                t = FloatTy(v)
            elif v in ('half', 'x86_fp80', 'fp128'):
                raise Unsupported('floating point type ' + v)
            elif v == 'opaque':
                t = OpaqueTy('opaque')
            elif v == 'metadata':
                t = OpaqueTy('metadata')
            elif v == 'ptr':
                raise Unsupported('opaque pointers (need typed pointers, LLVM<=14)')
            else:
                raise Unsupported('type word ' + v)
        elif k == 'local':
            t = s.mod.named_type(v)
        elif v == '[':
            n = int(s.next()[1])
            s.expect('x')
            el = s.parse_type()
            s.expect(']')
            t = ArrTy(n, el)
        elif v == '{':
            t = StructTy(s.parse_fields('}'))
        elif v == '<':
            if s.peek()[1] == '{':
                s.next()
                t = StructTy(s.parse_fields('}'), packed=True)
                s.expect('>')
            else:
                raise Unsupported('vector type')
        else:
            raise Unsupported('type token %r' % ((k, v),))
        # suffixes
        while True:
            if s.peek()[1] == '*':
                s.next()
                t = PtrTy(t)
            elif s.peek()[1] == '(' and not isinstance(t, LabelTy):
                # function type
                s.next()
                params = []
                vararg = False
                if not s.accept(')'):
                    while True:
                        if s.peek()[0] == 'dots':
                            s.next()
                            vararg = True
                        else:
                            params.append(s.parse_type())
                        if s.accept(')'):
                            break
                        s.expect(',')
                t = FnTy(t, params, vararg)
            else:
                break
        return t

    def parse_fields(s, close):
        fs = []
        if s.accept(close):
            return fs
        while True:
            fs.append(s.parse_type())
            if s.accept(close):
                return fs
            s.expect(',')

    # ---- attributes to skip
    PARAM_ATTRS = {'noundef', 'nonnull', 'noalias', 'nocapture', 'readonly', 'readnone', 'writeonly',
                   'signext', 'zeroext', 'returned', 'inreg', 'nest', 'immarg', 'nofree', 'swiftself',
                   'noreturn', 'nounwind', 'inbounds', 'nsw', 'nuw', 'exact', 'volatile', 'tail',
                   'musttail', 'notail', 'dso_local', 'local_unnamed_addr', 'unnamed_addr', 'fastcc',
                   'ccc', 'mustprogress'}

    def skip_param_attrs(s, info=None):
        while True:
            k, v = s.peek()
            if k == 'word' and v in s.PARAM_ATTRS:
                s.next()
            elif k == 'word' and v in ('align', 'dereferenceable', 'dereferenceable_or_null'):
                s.next()
                if s.accept('('):
                    s.next()
                    s.expect(')')
                else:
                    s.next()
            elif k == 'word' and v in ('sret', 'byval', 'byref', 'inalloca', 'preallocated', 'elementtype'):
                s.next()
                s.expect('(')
                t = s.parse_type()
                s.expect(')')
                if info is not None:
                    info[v] = t
            else:
                break

    # ---- values
    def parse_typed_value(s):
        t = s.parse_type()
        s.skip_param_attrs()
        return s.parse_value(t)

    def parse_value(s, t):
        k, v = s.next()
        if k == 'local':
            return ('local', v, t)
        if k == 'glob':
            return ('global', v, t)
        if k == 'num':
            if isinstance(t, FloatTy):
                return ('fp', float(v), t)
            if '.' in v:
                raise Unsupported('fp constant')
            return ('int', int(v), t)
        if k == 'hex' and isinstance(t, FloatTy):
            # LLVM prints float AND double constants that are not exactly representable in decimal as the 64-bit pattern of the double
            import struct
            return ('fp', struct.unpack('<d', struct.pack('<Q', int(v, 16)))[0], t)
        if k == 'word':
            if v == 'true':
                return ('int', 1, t)
            if v == 'false':
                return ('int', 0, t)
            if v == 'null':
                return ('null', None, t)
            if v in ('undef', 'poison'):
                return ('undef', None, t)
            if v == 'zeroinitializer':
                return ('zero', None, t)
            if v in ('getelementptr',):
                s.accept('inbounds')
                s.expect('(')
                bt = s.parse_type()
                s.expect(',')
                ops = [s.parse_typed_value()]
                while s.accept(','):
                    s.accept('inrange')
                    ops.append(s.parse_typed_value())
                s.expect(')')
                return ('cgep', (bt, ops), t)
            if v in ('bitcast', 'ptrtoint', 'inttoptr', 'trunc', 'zext', 'sext', 'addrspacecast'):
                s.expect('(')
                x = s.parse_typed_value()
                s.expect('to')
                t2 = s.parse_type()
                s.expect(')')
                return ('ccast', (v, x), t2)
            if v in ('add', 'sub', 'mul', 'and', 'or', 'xor', 'shl', 'lshr', 'ashr'):
                while s.peek()[1] in ('nsw', 'nuw', 'exact'):
                    s.next()
                s.expect('(')
                a = s.parse_typed_value()
                s.expect(',')
                b = s.parse_typed_value()
                s.expect(')')
                return ('cbin', (v, a, b), t)
            if v == 'icmp':
                pred = s.next()[1]
                s.expect('(')
                a = s.parse_typed_value()
                s.expect(',')
                b = s.parse_typed_value()
                s.expect(')')
                return ('cicmp', (pred, a, b), t)
            raise Unsupported('value word ' + v)
        if k == 'cstr':
            return ('cstr', decode_cstr(v), t)
        if v == '{' or v == '[':
            close = '}' if v == '{' else ']'
            els = []
            if not s.accept(close):
                while True:
                    els.append(s.parse_typed_value())
                    if s.accept(close):
                        break
                    s.expect(',')
            return ('agg', els, t)
        if v == '<':
            if s.accept('{'):
                els = []
                if not s.accept('}'):
                    while True:
                        els.append(s.parse_typed_value())
                        if s.accept('}'):
                            break
                        s.expect(',')
                s.expect('>')
                return ('agg', els, t)
            raise Unsupported('vector constant')
        raise Unsupported('value token %r' % ((k, v),))


def decode_cstr(tok):
    body = tok[2:-1]
    out = bytearray()
    i = 0
    while i < len(body):
        if body[i] == '\\':
            if body[i + 1] == '\\':
                out.append(92)
                i += 2
            else:
                out.append(int(body[i + 1:i + 3], 16))
                i += 3
        else:
            out.append(ord(body[i]))
            i += 1
    return bytes(out)


# ---------------------------------------------------------------- module
class Func:
    def __init__(s):
        s.name = None
        s.ret = None
        s.params = []  # (type, name, info)
        s.vararg = False
        s.blocks = []  # (label, [instr])
        s.attrs = set()
        s.is_decl = False


class Module:
    def __init__(s):
        s.types = {}      # name -> StructTy/OpaqueTy
        s.type_order = []
        s.globals = {}    # name -> dict
        s.funcs = {}
        s.attr_groups = {}
        s.aliases = {}

    def named_type(s, name):
        if name not in s.types:
            s.types[name] = StructTy(None, name=name)
            s.type_order.append(name)
        return s.types[name]


def logical_lines(text):
    """join multi-line constructs (switch tables, landingpad clauses, invoke 'to' lines)"""
    raw = text.split('\n')
    out = []
    i = 0
    while i < len(raw):
        l = raw[i]
        st = l.strip()
        if re.match(r'(%\S+ = )?(switch) ', st) and st.endswith('['):
            while not raw[i].strip().endswith(']'):
                i += 1
                l += ' ' + raw[i].strip()
        elif re.match(r'(%\S+ = )?(invoke) ', st):
            i += 1
            l += ' ' + raw[i].strip()
        elif re.match(r'%\S+ = landingpad ', st):
            while i + 1 < len(raw) and re.match(r'\s+(cleanup|catch|filter)\b', raw[i + 1]):
                i += 1
                l += ' ' + raw[i].strip()
        out.append(l)
        i += 1
    return out


def parse_module(text):
    mod = Module()
    lines = logical_lines(text)
    i = 0
    cur = None
    curblock = None
    while i < len(lines):
        line = lines[i]
        i += 1
        st = line.strip()
        if not st or st.startswith(';'):
            # block labels may be given as comments only for unnamed entry: ignore
            continue
        if cur is None:
            if st.startswith('source_filename') or st.startswith('target ') or st.startswith('!') \
                    or st.startswith('$') or st.startswith('module asm'):
                continue
            if st.startswith('attributes #'):
                m = re.match(r'attributes (#\d+) = \{(.*)\}', st)
                mod.attr_groups[m.group(1)] = set(re.findall(r'[a-z_]+', re.sub(r'"[^"]*"(="[^"]*")?', '', m.group(2))))
                continue
            m = re.match(r'(%(?:"(?:[^"\\]|\\.)*"|[-a-zA-Z$._0-9]+)) = type (.*)$', st)
            if m:
                name = m.group(1)
                nt = mod.named_type(name)
                p = Parser(tokenize(m.group(2)), mod)
                if p.peek()[1] == 'opaque':
                    nt.fields = []
                    nt.opaque = True
                else:
                    body = p.parse_type()
                    nt.fields = body.fields
                    nt.packed = body.packed
                continue
            if st.startswith('@'):
                parse_global(mod, st)
                continue
            if st.startswith('declare'):
                f = parse_fn_header(mod, st[len('declare'):])
                f.is_decl = True
                mod.funcs[f.name] = f
                continue
            if st.startswith('define'):
                cur = parse_fn_header(mod, st[len('define'):].rstrip('{').strip())
                curblock = None
                continue
            raise Unsupported('top-level line: ' + st[:80])
        else:
            if st == '}':
                mod.funcs[cur.name] = cur
                cur = None
                continue
            m = re.match(r'((?:"(?:[^"\\]|\\.)*"|[-a-zA-Z$._0-9]+)):', st)
            if m and not st.startswith('%'):
                curblock = (('%' + m.group(1)), [])
                cur.blocks.append(curblock)
                continue
            if curblock is None:
                # entry block with implicit numeric label = number of params (unnamed) -> find later
                curblock = (None, [])
                cur.blocks.append(curblock)
            curblock[1].append(parse_instr(mod, st))
    return mod


LINKAGE = {'private', 'internal', 'available_externally', 'linkonce', 'weak', 'common', 'appending',
           'extern_weak', 'linkonce_odr', 'weak_odr', 'external', 'dso_local', 'dso_preemptable',
           'default', 'hidden', 'protected', 'unnamed_addr', 'local_unnamed_addr', 'thread_local',
           'externally_initialized'}


def parse_global(mod, st):
    p = Parser(tokenize(st), mod)
    name = p.next()[1]
    p.expect('=')
    g = {'name': name, 'external': False, 'const': False, 'init': None}
    while p.peek()[1] in LINKAGE:
        w = p.next()[1]
        if w in ('external', 'extern_weak'):
            g['external'] = True
    kind = p.next()[1]
    if kind == 'alias':
        t = p.parse_type()
        p.expect(',')
        tv = p.parse_typed_value()
        if tv[0] != 'global':
            raise Unsupported('alias to expression')
        mod.aliases[name] = tv[1]
        return
    g['const'] = kind == 'constant'
    t = p.parse_type()
    g['type'] = t
    if not g['external'] and not p.at_end() and p.peek()[1] != ',':
        g['init'] = p.parse_value(t)
    mod.globals[name] = g


def parse_fn_header(mod, s):
    p = Parser(tokenize(s), mod)
    f = Func()
    while True:
        k, v = p.peek()
        if k == 'word' and (v in LINKAGE or v in Parser.PARAM_ATTRS):
            p.next()
        elif k == 'word' and v in ('align', 'dereferenceable', 'dereferenceable_or_null'):
            p.next()
            if p.accept('('):
                p.next()
                p.expect(')')
            else:
                p.next()
        else:
            break
    f.ret = parse_ret_type(p)
    f.name = p.next()[1]
    p.expect('(')
    if not p.accept(')'):
        while True:
            if p.peek()[0] == 'dots':
                p.next()
                f.vararg = True
            else:
                t = p.parse_type()
                info = {}
                p.skip_param_attrs(info)
                nm = None
                if p.peek()[0] == 'local':
                    nm = p.next()[1]
                f.params.append((t, nm, info))
            if p.accept(')'):
                break
            p.expect(',')
    while not p.at_end():
        k, v = p.next()
        if k == 'attr':
            f.attrs |= mod.attr_groups.get(v, set())
            f.attr_ref = v
        elif k == 'word':
            f.attrs.add(v)
            if v == 'personality':
                p.parse_typed_value()
            elif v in ('comdat',):
                if p.accept('('):
                    p.next()
                    p.expect(')')
            elif v in ('align', 'section', 'gc', 'prefix', 'prologue'):
                p.next()
    # number unnamed params
    n = 0
    ps = []
    for (t, nm, info) in f.params:
        if nm is None:
            nm = '%%%d' % n
            n += 1
        elif re.fullmatch(r'%[0-9]+', nm):
            n += 1
        ps.append((t, nm, info))
    f.params = ps
    f.first_unnamed = n
    return f


def parse_ret_type(p):
    # return type: careful, a function-pointer return type is rare; parse_type would swallow '(' as fn type.
    # We parse the base type without the function suffix.
    save = p.i
    t = p.parse_type()
    if isinstance(t, FnTy):
        # oops: "i32 (i8*)* @f(...)" is legal but rare; handle common case by backtracking
        p.i = save
        t = parse_type_nofn(p)
    return t


def parse_type_nofn(p):
    k, v = p.next()
    if k == 'word' and v == 'void':
        t = VoidTy()
    elif k == 'word' and re.fullmatch(r'i[0-9]+', v):
        t = IntTy(int(v[1:]))
    elif k == 'local':
        t = p.mod.named_type(v)
    elif v == '{':
        t = StructTy(p.parse_fields('}'))
    elif v == '[':
        n = int(p.next()[1])
        p.expect('x')
        el = p.parse_type()
        p.expect(']')
        t = ArrTy(n, el)
    else:
        raise Unsupported('ret type %r' % ((k, v),))
    while p.peek()[1] == '*':
        p.next()
        t = PtrTy(t)
    return t


def parse_call_tail(p, mod):
    """after 'call'/'invoke' keyword: [cc] [ret attrs] type [fnty] callee(args) [attrs]"""
    while True:
        k, v = p.peek()
        if k == 'word' and (v in Parser.PARAM_ATTRS or v in LINKAGE):
            p.next()
        elif k == 'word' and v in ('align', 'dereferenceable', 'dereferenceable_or_null'):
            p.next()
            if p.accept('('):
                p.next()
                p.expect(')')
            else:
                p.next()
        else:
            break
    save = p.i
    t = p.parse_type()
    fnty = None
    if isinstance(t, FnTy):
        fnty = t
        ret = t.ret
    elif isinstance(t, PtrTy) and isinstance(t.to, FnTy):
        fnty = t.to
        ret = fnty.ret
    else:
        ret = t
    k, v = p.next()
    if k == 'glob':
        callee = ('global', v, None)
    elif k == 'local':
        callee = ('local', v, None)
    elif k == 'word' and v == 'bitcast':
        p.i -= 1
        callee = p.parse_value(None)
    else:
        raise Unsupported('callee %r' % ((k, v),))
    p.expect('(')
    args = []
    if not p.accept(')'):
        while True:
            at = p.parse_type()
            info = {}
            p.skip_param_attrs(info)
            if isinstance(at, OpaqueTy) and at.name == 'metadata':
                # metadata argument: skip tokens until , or )
                depth = 0
                while not (depth == 0 and p.peek()[1] in (',', ')')):
                    if p.peek()[1] == '(':
                        depth += 1
                    if p.peek()[1] == ')':
                        depth -= 1
                    p.next()
                args.append((('undef', None, at), info))
            else:
                args.append((p.parse_value(at), info))
            if p.accept(')'):
                break
            p.expect(',')
    attrs = set()
    while not p.at_end() and p.peek()[1] not in ('to',):
        k, v = p.next()
        if k == 'attr':
            attrs |= mod.attr_groups.get(v, set())
        elif k == 'word':
            attrs.add(v)
        elif v == '[':
            # operand bundles
            while p.next()[1] != ']':
                pass
    return ret, fnty, callee, args, attrs


def parse_instr(mod, st):
    p = Parser(tokenize(st), mod)
    dest = None
    if p.peek()[0] == 'local' and p.peek(1)[1] == '=':
        dest = p.next()[1]
        p.next()
    op = p.next()[1]
    I = {'op': op, 'dest': dest}
    if op in ('add', 'sub', 'mul', 'udiv', 'sdiv', 'urem', 'srem', 'shl', 'lshr', 'ashr', 'and', 'or', 'xor'):
        while p.peek()[1] in ('nsw', 'nuw', 'exact'):
            I.setdefault('flags', set()).add(p.next()[1])
        t = p.parse_type()
        a = p.parse_value(t)
        p.expect(',')
        b = p.parse_value(t)
        I.update(ty=t, a=a, b=b)
    elif op in ('fadd', 'fsub', 'fmul', 'fdiv', 'frem', 'fneg', 'fcmp'):
        while p.peek()[1] in ('fast', 'nnan', 'ninf', 'nsz', 'arcp', 'contract', 'afn', 'reassoc'):
            p.next()
        if op == 'fcmp':
            I['pred'] = p.next()[1]
        t = p.parse_type()
        a = p.parse_value(t)
        b = None
        if op != 'fneg':
            p.expect(',')
            b = p.parse_value(t)
        I.update(ty=t, a=a, b=b)
    elif op == 'icmp':
        I['pred'] = p.next()[1]
        t = p.parse_type()
        a = p.parse_value(t)
        p.expect(',')
        b = p.parse_value(t)
        I.update(ty=t, a=a, b=b)
    elif op in ('trunc', 'zext', 'sext', 'bitcast', 'ptrtoint', 'inttoptr', 'addrspacecast', 'fpext', 'fptrunc', 'sitofp', 'uitofp', 'fptosi', 'fptoui'):
        v = p.parse_typed_value()
        p.expect('to')
        I.update(v=v, to=p.parse_type())
    elif op == 'freeze':
        I.update(v=p.parse_typed_value())
    elif op == 'load':
        while p.peek()[1] in ('volatile', 'atomic'):
            p.next()
        t = p.parse_type()
        p.expect(',')
        I.update(ty=t, ptr=p.parse_typed_value())
    elif op == 'store':
        while p.peek()[1] in ('volatile', 'atomic'):
            p.next()
        v = p.parse_typed_value()
        p.expect(',')
        I.update(v=v, ptr=p.parse_typed_value())
    elif op == 'alloca':
        p.accept('inalloca')
        t = p.parse_type()
        n = None
        if p.accept(','):
            if p.peek()[1] == 'align':
                pass
            else:
                n = p.parse_typed_value()
        I.update(ty=t, n=n)
    elif op == 'getelementptr':
        p.accept('inbounds')
        bt = p.parse_type()
        p.expect(',')
        base = p.parse_typed_value()
        idx = []
        while p.accept(','):
            idx.append(p.parse_typed_value())
        I.update(bt=bt, base=base, idx=idx)
    elif op == 'phi':
        t = p.parse_type()
        inc = []
        while True:
            p.expect('[')
            v = p.parse_value(t)
            p.expect(',')
            lbl = p.next()[1]
            p.expect(']')
            inc.append((v, lbl))
            if not p.accept(','):
                break
        I.update(ty=t, inc=inc)
    elif op == 'select':
        c = p.parse_typed_value()
        p.expect(',')
        a = p.parse_typed_value()
        p.expect(',')
        b = p.parse_typed_value()
        I.update(c=c, a=a, b=b)
    elif op == 'br':
        if p.peek()[1] == 'label':
            p.next()
            I.update(target=p.next()[1])
        else:
            c = p.parse_typed_value()
            p.expect(',')
            p.expect('label')
            t1 = p.next()[1]
            p.expect(',')
            p.expect('label')
            t2 = p.next()[1]
            I.update(c=c, t=t1, f=t2)
    elif op == 'switch':
        v = p.parse_typed_value()
        p.expect(',')
        p.expect('label')
        dflt = p.next()[1]
        p.expect('[')
        cases = []
        while not p.accept(']'):
            cv = p.parse_typed_value()
            p.expect(',')
            p.expect('label')
            cases.append((cv, p.next()[1]))
        I.update(v=v, dflt=dflt, cases=cases)
    elif op == 'ret':
        if p.peek()[1] == 'void':
            I.update(v=None)
        else:
            I.update(v=p.parse_typed_value())
    elif op in ('call', 'invoke') or (op in ('tail', 'musttail', 'notail') and p.peek()[1] == 'call'):
        if op in ('tail', 'musttail', 'notail'):
            p.next()
            op = 'call'
            I['op'] = 'call'
        ret, fnty, callee, args, attrs = parse_call_tail(p, mod)
        I.update(ret=ret, fnty=fnty, callee=callee, args=args, attrs=attrs)
        if op == 'invoke':
            p.expect('to')
            p.expect('label')
            I['normal'] = p.next()[1]
            p.expect('unwind')
            p.expect('label')
            I['unwind'] = p.next()[1]
    elif op == 'landingpad':
        t = p.parse_type()
        cl = []
        while not p.at_end():
            w = p.next()[1]
            if w == 'cleanup':
                cl.append(('cleanup', None))
            elif w == 'catch':
                cl.append(('catch', p.parse_typed_value()))
            elif w == 'filter':
                cl.append(('filter', p.parse_typed_value()))
        I.update(ty=t, clauses=cl)
    elif op == 'resume':
        I.update(v=p.parse_typed_value())
    elif op == 'unreachable':
        pass
    elif op == 'fence':
        pass
    elif op == 'atomicrmw':
        p.accept('volatile')
        I['rmw'] = p.next()[1]
        ptr = p.parse_typed_value()
        p.expect(',')
        I.update(ptr=ptr, v=p.parse_typed_value())
    elif op == 'cmpxchg':
        p.accept('weak')
        p.accept('volatile')
        ptr = p.parse_typed_value()
        p.expect(',')
        cmp_ = p.parse_typed_value()
        p.expect(',')
        I.update(ptr=ptr, cmp=cmp_, v=p.parse_typed_value())
    elif op == 'extractvalue':
        v = p.parse_typed_value()
        idx = []
        while p.accept(','):
            idx.append(int(p.next()[1]))
        I.update(v=v, idx=idx)
    elif op == 'insertvalue':
        v = p.parse_typed_value()
        p.expect(',')
        e = p.parse_typed_value()
        idx = []
        while p.accept(','):
            idx.append(int(p.next()[1]))
        I.update(v=v, e=e, idx=idx)
    else:
        raise Unsupported('instruction ' + op + ' :: ' + st[:100])
    return I


# ---------------------------------------------------------------- C emission
LIBC_RENAME = {'malloc', 'free', 'getenv', 'strlen', 'memcmp', 'strcmp', 'bcmp', 'strchr', 'abort', 'calloc',
               'realloc', 'memchr', 'memcpy', 'memmove', 'memset', 'dlopen', 'dlclose', 'dlsym', 'dlerror', 'puts', 'printf'}


def flat(t):
    n = 1
    while isinstance(t, ArrTy):
        n *= max(t.n, 0)
        t = t.el
    return n, t


def arr_depth(t):
    d = 0
    while isinstance(t, ArrTy):
        d += 1
        t = t.el
    return d


class Emitter:
    def __init__(s, mod):
        s.mod = mod
        s.cn = {}
        s.used = set(['main'])
        s.anon = {}
        s.anon_list = []

    # ---- x86-64 data layout
    def alignof(s, t):
        if isinstance(t, FloatTy):
            return t.bits // 8
        if isinstance(t, IntTy):
            return max(1, min(8, (t.bits + 7) // 8)) if t.bits <= 64 else 16
        if isinstance(t, PtrTy):
            return 8
        if isinstance(t, ArrTy):
            return s.alignof(t.el)
        if isinstance(t, StructTy):
            if getattr(t, 'packed', False) or not t.fields:
                return 1
            return max(s.alignof(f) for f in t.fields)
        raise Unsupported('alignof ' + t.key())

    def sizeof(s, t):
        if isinstance(t, FloatTy):
            return t.bits // 8
        if isinstance(t, IntTy):
            b = (t.bits + 7) // 8
            return 1 if b <= 1 else 2 if b <= 2 else 4 if b <= 4 else 8 if b <= 8 else 16
        if isinstance(t, PtrTy):
            return 8
        if isinstance(t, ArrTy):
            return t.n * s.sizeof(t.el)
        if isinstance(t, StructTy):
            if getattr(t, 'opaque', False):
                raise Unsupported('sizeof opaque')
            off = 0
            packed = getattr(t, 'packed', False)
            for f in t.fields:
                a = 1 if packed else s.alignof(f)
                off = (off + a - 1) // a * a
                off += s.sizeof(f)
            a = 1 if packed else s.alignof(t)
            return (off + a - 1) // a * a
        raise Unsupported('sizeof ' + t.key())

    # ---- names
    def uniq(s, base):
        cand = base
        k = 0
        while cand in s.used:
            k += 1
            cand = '%s_%d' % (base, k)
        s.used.add(cand)
        return cand

    def gname(s, ll):
        ll = s.mod.aliases.get(ll, ll)
        if ll in s.cn:
            return s.cn[ll]
        raw = ll[1:]
        if raw.startswith('"'):
            raw = raw[1:-1]
        if re.fullmatch(r'[A-Za-z_][A-Za-z0-9_]*', raw):
            base = ('ir2c_' + raw) if raw in LIBC_RENAME else raw
        else:
            base = 'g_' + re.sub(r'[^A-Za-z0-9_]', '_', raw)
        s.cn[ll] = s.uniq(base)
        return s.cn[ll]

    def sname(s, t):
        key = 'T' + t.name
        if key not in s.cn:
            raw = t.name[1:].strip('"')
            s.cn[key] = s.uniq('s_' + re.sub(r'[^A-Za-z0-9_]', '_', raw)[:90])
        return s.cn[key]

    def aname(s, t):
        k = t.key()
        if k not in s.anon:
            s.anon[k] = 'anon%d' % len(s.anon)
            s.anon_list.append((s.anon[k], t))
        return s.anon[k]

    # ---- types
    def ctype(s, t):
        if isinstance(t, FloatTy):
            return t.name
        if isinstance(t, IntTy):
            if t.bits == 1:
                return 'u1'
            if t.bits in (8, 16, 32, 64):
                return 'u%d' % t.bits
            raise Unsupported('integer width i%d' % t.bits)
        if isinstance(t, VoidTy):
            return 'void'
        if isinstance(t, PtrTy):
            to = t.to
            if isinstance(to, FnTy):
                return 'fnp'
            if isinstance(to, ArrTy):
                return s.ctype(PtrTy(flat(to)[1]))
            if isinstance(to, (VoidTy, OpaqueTy)):
                return 'u8*'
            return s.ctype(to) + '*'
        if isinstance(t, StructTy):
            if t.name:
                return 'struct ' + s.sname(t)
            return 'struct ' + s.aname(t)
        if isinstance(t, OpaqueTy):
            return 'u8'
        if isinstance(t, FnTy):
            return 'fnp'
        raise Unsupported('ctype of %s' % t.key())

    def decl(s, t, name):
        dims = ''
        while isinstance(t, ArrTy):
            dims += '[%d]' % max(t.n, 1)
            t = t.el
        return '%s %s%s' % (s.ctype(t), name, dims)

    def fnproto(s, ret, params, vararg, name):
        ps = [s.ctype(p) for p in params]
        if vararg:
            ps.append('...')
        if not ps:
            ps = ['void']
        return '%s %s(%s)' % (s.ctype(ret), name, ', '.join(ps))

    # ---- struct ordering
    def emit_types(s, out):
        mod = s.mod
        # make sure every named type has a cname; collect anon types by walking everything once
        done = set()
        order = []

        def visit(t):
            if isinstance(t, ArrTy):
                visit(t.el)
                return
            if not isinstance(t, StructTy):
                return
            k = t.key()
            if k in done:
                return
            done.add(k)
            for f in (t.fields or []):
                visit(f)          # by-value containment only
            order.append(t)
        for name in mod.type_order:
            visit(mod.types[name])
        # anon structs discovered lazily while emitting code: emitted in a second pass (see finish)
        for name in mod.type_order:
            t = mod.types[name]
            out.append('struct %s;' % s.sname(t))
        for t in order:
            s.emit_struct(t, out)
        s.types_done = done

    def emit_struct(s, t, out):
        nm = s.sname(t) if t.name else s.aname(t)
        if getattr(t, 'opaque', False) or t.fields is None:
            return
        fs = []
        for i, f in enumerate(t.fields):
            fs.append('  %s;' % s.decl(f, 'f%d' % i))
        if not fs:
            fs = ['  u8 empty_;']
        out.append('struct %s%s {\n%s\n};' % ('__attribute__((packed)) ' if t.packed else '', nm, '\n'.join(fs)))

    # ---- constants & operands
    def mask(s, v, bits):
        return v & ((1 << bits) - 1)

    def intlit(s, v, t):
        b = t.bits
        v = s.mask(v, b)
        if b == 1:
            return '((u1)%d)' % v
        if b == 64:
            return '((u64)%dULL)' % v
        return '((u%d)%dU)' % (b, v)

    def fplit(s, x, t):
        import math
        if math.isnan(x):
            return '((%s)__builtin_nan(""))' % t.name
        if math.isinf(x):
            return '((%s)%s__builtin_inf())' % (t.name, '-' if x < 0 else '')
        return '((%s)%s)' % (t.name, float.hex(x))      # C99 hexadecimal floating literal: exact (keeps the sign of -0.0)

    def zero(s, t):
        if isinstance(t, (IntTy,)):
            return s.intlit(0, t)
        if isinstance(t, FloatTy):
            return '((%s)0.0)' % t.name
        if isinstance(t, PtrTy):
            return '((%s)0)' % s.ctype(t)
        if isinstance(t, StructTy):
            return '((%s){0})' % s.ctype(t)
        raise Unsupported('zero of ' + t.key())

    def val(s, v):
        k, x, t = v
        if k == 'local':
            return s.loc[x]
        if k == 'global':
            return s.gaddr(x, t)
        if k == 'int':
            return s.intlit(x, t)
        if k == 'fp':
            return s.fplit(x, t)
        if k in ('null', 'undef', 'zero'):
            return s.zero(t)
        if k == 'cgep':
            bt, ops = x
            return s.gep(bt, ops[0], ops[1:], t)
        if k == 'ccast':
            op, a = x
            return s.cast(op, a, t)
        if k == 'cbin':
            op, a, b = x
            return s.binop(op, a, b, t)
        if k == 'cicmp':
            pred, a, b = x
            return s.icmp(pred, a, b)
        raise Unsupported('operand kind ' + k)

    def gaddr(s, name, t):
        name = s.mod.aliases.get(name, name)
        cn = s.gname(name)
        if name in s.mod.funcs:
            return '((fnp)&%s)' % cn
        g = s.mod.globals.get(name)
        if g is None:
            raise Unsupported('unknown global ' + name)
        gt = g['type']
        d = arr_depth(gt)
        ct = s.ctype(t) if t is not None else s.ctype(PtrTy(gt))
        return '((%s)&%s%s)' % (ct, cn, '[0]' * d)

    def gep(s, bt, base, idx, rt):
        cur = s.val(base)
        cty = bt
        # first index: pointer arithmetic in units of flat(cty)
        n, ft = flat(cty)
        i0 = idx[0]
        cur = '((%s*)%s)' % (s.ctype(ft) if not isinstance(ft, (VoidTy, OpaqueTy, FnTy)) else 'u8', cur)
        if not (i0[0] == 'int' and i0[1] == 0):
            cur = '(%s + %s)' % (cur, s.scaled(i0, n))
        for ix in idx[1:]:
            if isinstance(cty, ArrTy):
                n, ft = flat(cty.el)
                if not (ix[0] == 'int' and ix[1] == 0):
                    cur = '(%s + %s)' % (cur, s.scaled(ix, n))
                cty = cty.el
            elif isinstance(cty, StructTy):
                if ix[0] != 'int':
                    raise Unsupported('non-constant struct index')
                fty = cty.fields[ix[1]]
                cur = '(&(%s)->f%d%s)' % (cur, ix[1], '[0]' * arr_depth(fty))
                cty = fty
            else:
                raise Unsupported('gep into ' + cty.key())
        if rt is None:
            return cur
        return '((%s)%s)' % (s.ctype(rt), cur)

    def scaled(s, ix, n):
        e = s.sval(ix)
        if n == 1:
            return e
        return '(%s * (i64)%d)' % (e, n)

    def sval(s, v):
        """operand as signed 64-bit C expression"""
        k, x, t = v
        if k == 'int':
            b = t.bits
            x = s.mask(x, b)
            if x >= (1 << (b - 1)):
                x -= (1 << b)
            return '((i64)%dLL)' % x
        return '((i64)(i%d)%s)' % (t.bits, s.val(v))

    def signed(s, v):
        t = v[2]
        return '((i%d)%s)' % (t.bits, s.val(v))

    def cast(s, op, a, to):
        av = s.val(a)
        ft = a[2]
        if op == 'bitcast':
            if isinstance(to, FloatTy) or isinstance(ft, FloatTy):
                if isinstance(to, FloatTy) and isinstance(ft, FloatTy):
                    return av
                # object-representation cast between an integer and a floating type of the same width
                return 'ir2c_bits_%s_to_%s(%s)' % (s.ctype(ft), s.ctype(to), av)
            if isinstance(to, PtrTy) or isinstance(to, IntTy):
                return '((%s)%s)' % (s.ctype(to), av)
            raise Unsupported('bitcast to ' + to.key())
        if op in ('fpext', 'fptrunc'):
            return '((%s)%s)' % (s.ctype(to), av)
        if op == 'sitofp':
            return '((%s)(i%d)%s)' % (s.ctype(to), ft.bits, av)
        if op == 'uitofp':
            return '((%s)%s)' % (s.ctype(to), av)
        if op == 'fptosi':
            return '((%s)(i%d)%s)' % (s.ctype(to), to.bits, av)
        if op == 'fptoui':
            return '((%s)%s)' % (s.ctype(to), av)
        if op == 'addrspacecast':
            return '((%s)%s)' % (s.ctype(to), av)
        if op == 'ptrtoint':
            return '((%s)(uptr)%s)' % (s.ctype(to), av)
        if op == 'inttoptr':
            return '((%s)(uptr)%s)' % (s.ctype(to), av)
        if op == 'zext':
            return '((%s)%s)' % (s.ctype(to), av)
        if op == 'sext':
            if ft.bits == 1:
                return '((%s)(-(i%d)%s))' % (s.ctype(to), to.bits, av)
            return '((%s)(i%d)(i%d)%s)' % (s.ctype(to), to.bits, ft.bits, av)
        if op == 'trunc':
            if to.bits == 1:
                return '((u1)(%s & 1))' % av
            return '((%s)%s)' % (s.ctype(to), av)
        raise Unsupported('cast ' + op)

    def binop(s, op, a, b, t):
        if not isinstance(t, IntTy):
            raise Unsupported('binop on ' + t.key())
        ct = s.ctype(t)
        A, B = s.val(a), s.val(b)
        w = 'u64' if t.bits == 64 else 'u32'
        if op in ('add', 'sub', 'mul', 'and', 'or', 'xor'):
            c = {'add': '+', 'sub': '-', 'mul': '*', 'and': '&', 'or': '|', 'xor': '^'}[op]
            return '((%s)((%s)%s %s (%s)%s))' % (ct, w, A, c, w, B)
        if op == 'shl':
            return '((%s)((%s)%s << %s))' % (ct, w, A, B)
        if op == 'lshr':
            return '((%s)((%s)%s >> %s))' % (ct, w, A, B)
        if op == 'ashr':
            return '((%s)(%s >> %s))' % (ct, s.signed(a), B)
        if op == 'udiv':
            return '((%s)((%s)%s / (%s)%s))' % (ct, w, A, w, B)
        if op == 'urem':
            return '((%s)((%s)%s %% (%s)%s))' % (ct, w, A, w, B)
        if op == 'sdiv':
            return '((%s)(%s / %s))' % (ct, s.signed(a), s.signed(b))
        if op == 'srem':
            return '((%s)(%s %% %s))' % (ct, s.signed(a), s.signed(b))
        raise Unsupported('binop ' + op)

    def fbinop(s, op, a, b, t):
        A, B = s.val(a), s.val(b)
        if op == 'frem':
            return '((%s)__builtin_fmod(%s, %s))' % (t.name, A, B)
        c = {'fadd': '+', 'fsub': '-', 'fmul': '*', 'fdiv': '/'}[op]
        return '((%s)(%s %s %s))' % (t.name, A, c, B)

    def fcmp(s, pred, a, b):
        A, B = s.val(a), s.val(b)
        uno = '(%s != %s || %s != %s)' % (A, A, B, B)       # unordered: at least one NaN
        if pred == 'false':
            return '((u1)0)'
        if pred == 'true':
            return '((u1)1)'
        if pred == 'ord':
            return '((u1)!%s)' % uno
        if pred == 'uno':
            return '((u1)%s)' % uno
        c = {'eq': '==', 'ne': '!=', 'lt': '<', 'le': '<=', 'gt': '>', 'ge': '>='}[pred[1:]]
        if pred[0] == 'o':
            # C comparisons are ordered (false on NaN) except !=, which is true on NaN
            if c == '!=':
                return '((u1)(!%s && %s != %s))' % (uno, A, B)
            return '((u1)(%s %s %s))' % (A, c, B)
        if c == '!=':
            return '((u1)(%s != %s))' % (A, B)
        return '((u1)(%s || %s %s %s))' % (uno, A, c, B)

    def icmp(s, pred, a, b):
        t = a[2]
        if isinstance(t, PtrTy):
            if pred in ('eq', 'ne'):
                return '((u1)((void*)%s %s (void*)%s))' % (s.val(a), '==' if pred == 'eq' else '!=', s.val(b))
            c = {'ult': '<', 'ule': '<=', 'ugt': '>', 'uge': '>='}.get(pred)
            if c is None:
                raise Unsupported('signed pointer compare')
            return '((u1)((uptr)%s %s (uptr)%s))' % (s.val(a), c, s.val(b))
        c = {'eq': '==', 'ne': '!=', 'ult': '<', 'ule': '<=', 'ugt': '>', 'uge': '>=',
             'slt': '<', 'sle': '<=', 'sgt': '>', 'sge': '>='}[pred]
        if pred[0] == 's' and pred != 'sle' or pred in ('sle',):
            if pred in ('slt', 'sle', 'sgt', 'sge'):
                return '((u1)(%s %s %s))' % (s.signed(a), c, s.signed(b))
        w = 'u64' if t.bits == 64 else 'u32'
        return '((u1)((%s)%s %s (%s)%s))' % (w, s.val(a), c, w, s.val(b))

    # ---- functions
    def emit_function(s, f, out):
        s.loc = {}
        s.f = f
        lused = set()

        def lname(ll):
            raw = ll[1:].strip('"')
            base = 'v' + re.sub(r'[^A-Za-z0-9_]', '_', raw)
            cand = base
            k = 0
            while cand in lused:
                k += 1
                cand = '%s_%d' % (base, k)
            lused.add(cand)
            return cand
        params = []
        for (t, nm, info) in f.params:
            s.loc[nm] = lname(nm)
            params.append('%s %s' % (s.ctype(t), s.loc[nm]))
        if f.vararg:
            params.append('...')
        if not params:
            params = ['void']
        body = []
        decls = []
        # result types
        labels = {}
        entry_label = '%%%d' % f.first_unnamed
        s.cleanup_only = set()
        for (lbl0, ins0) in f.blocks:
            for I0 in ins0:
                if I0['op'] == 'phi':
                    continue
                if I0['op'] == 'landingpad' and all(k == 'cleanup' for k, _ in I0['clauses']):
                    s.cleanup_only.add(lbl0)
                break
        for bi, (lbl, ins) in enumerate(f.blocks):
            if lbl is None:
                lbl = entry_label
                f.blocks[bi] = (lbl, ins)
            labels[lbl] = 'L' + re.sub(r'[^A-Za-z0-9_]', '_', lbl[1:].strip('"'))
        lset = set()
        for k in list(labels):
            c = labels[k]
            while c in lset:
                c += '_'
            lset.add(c)
            labels[k] = c
        s.labels = labels
        # values used only inside their defining block become block-scoped C locals: CBMC then kills them at the
        # end of the block instead of carrying (and phi-merging) ~all SSA values of the function at every join point
        defblk = {}
        usedblk = {}

        def collect(o, acc):
            if isinstance(o, tuple):
                if len(o) >= 2 and o[0] == 'local' and isinstance(o[1], str):
                    acc.add(o[1])
                    return
                for x in o:
                    collect(x, acc)
            elif isinstance(o, list):
                for x in o:
                    collect(x, acc)
            elif isinstance(o, dict):
                for k, x in o.items():
                    if k != 'dest':
                        collect(x, acc)
        for lbl, ins in f.blocks:
            for I in ins:
                if I['dest'] is not None:
                    defblk[I['dest']] = (lbl, I['op'])
                if I['op'] == 'phi':
                    for (val, pred) in I['inc']:
                        acc = set()
                        collect(val, acc)
                        for n_ in acc:
                            usedblk.setdefault(n_, set()).add(pred)
                else:
                    acc = set()
                    collect(I, acc)
                    for n_ in acc:
                        usedblk.setdefault(n_, set()).add(lbl)
        blocal = {}
        # declare all dests
        for lbl, ins in f.blocks:
            for I in ins:
                if I['dest'] is not None:
                    t = s.result_type(I)
                    I['rty'] = t
                    s.loc[I['dest']] = lname(I['dest'])
                    if I['op'] == 'alloca':
                        n = 1
                        if I['n'] is not None:
                            if I['n'][0] != 'int':
                                raise Unsupported('dynamic alloca')
                            n = I['n'][1]
                        at = I['ty'] if n == 1 else ArrTy(n, I['ty'])
                        decls.append('  %s;' % s.decl(at, s.loc[I['dest']] + '_mem'))
                        I['mem_depth'] = arr_depth(at)
                    dl = '  %s %s;' % (s.ctype(t), s.loc[I['dest']])
                    if BLOCK_SCOPE and I['op'] not in ('alloca', 'phi', 'invoke', 'landingpad') and \
                            usedblk.get(I['dest'], set()) <= {lbl}:
                        blocal.setdefault(lbl, []).append('  ' + dl)
                    else:
                        decls.append(dl)
        # first pointer type an i8* value is bitcast to (used to type heap allocations)
        s.cast_of = {}
        s.cast_all = {}
        src_of = {}   # i8** value -> original typed pointer type it was bitcast from
        s.src_of = src_of
        s.p2i = {}
        for lbl, ins in f.blocks:
            for I in ins:
                if I['op'] == 'ptrtoint' and I['dest']:
                    s.p2i[I['dest']] = I['v']
        for lbl, ins in f.blocks:
            for I in ins:
                if I['op'] == 'bitcast' and I['v'][0] == 'local' and isinstance(I['to'], PtrTy):
                    s.cast_of.setdefault(I['v'][1], I['to'].to)
                    s.cast_all.setdefault(I['v'][1], []).append(I['to'].to)
                    src_of[I['dest']] = I['v'][2]
        for lbl, ins in f.blocks:
            for I in ins:
                # store i8* %p, i8** %q  where %q = bitcast X* ... : the first scalar leaf of X is a T*
                if I['op'] == 'store' and I['v'][0] == 'local' and I['ptr'][0] == 'local' \
                        and I['ptr'][1] in src_of:
                    t = src_of[I['ptr'][1]]
                    t = t.to if isinstance(t, PtrTy) else None
                    while isinstance(t, (StructTy, ArrTy)):
                        t = (t.fields[0] if t.fields else None) if isinstance(t, StructTy) else t.el
                    if isinstance(t, PtrTy) and not isinstance(t.to, (FnTy, VoidTy)):
                        s.cast_all.setdefault(I['v'][1], []).append(t.to)
                        if I['v'][1] not in s.cast_of:
                            s.cast_of[I['v'][1]] = t.to
        # phi map: block -> list of (dest, {pred: val})
        s.phis = {}
        for lbl, ins in f.blocks:
            ph = [I for I in ins if I['op'] == 'phi']
            if ph:
                s.phis[lbl] = ph
        for lbl, ins in f.blocks:
            body.append('%s: ;' % labels[lbl])
            body.append('  {')
            body.extend(blocal.get(lbl, []))
            for I in ins:
                if I['op'] == 'phi':
                    continue
                s.emit_instr(I, lbl, body)
            body.append('  }')
        rt = s.ctype(f.ret)
        out.append('%s %s(%s)\n{' % (rt, s.gname(f.name), ', '.join(params)))
        out.extend(decls)
        out.extend(body)
        out.append('}\n')

    def result_type(s, I):
        op = I['op']
        if op in ('add', 'sub', 'mul', 'udiv', 'sdiv', 'urem', 'srem', 'shl', 'lshr', 'ashr', 'and', 'or', 'xor'):
            return I['ty']
        if op in ('icmp', 'fcmp'):
            return IntTy(1)
        if op in ('fadd', 'fsub', 'fmul', 'fdiv', 'frem', 'fneg'):
            return I['ty']
        if op in ('trunc', 'zext', 'sext', 'bitcast', 'ptrtoint', 'inttoptr', 'addrspacecast', 'fpext', 'fptrunc', 'sitofp', 'uitofp', 'fptosi', 'fptoui'):
            return I['to']
        if op == 'freeze':
            return I['v'][2]
        if op == 'load':
            return I['ty']
        if op == 'alloca':
            return PtrTy(I['ty'])
        if op == 'getelementptr':
            t = I['bt']
            for ix in I['idx'][1:]:
                if isinstance(t, ArrTy):
                    t = t.el
                elif isinstance(t, StructTy):
                    t = t.fields[ix[1]]
                else:
                    raise Unsupported('gep type')
            return PtrTy(t)
        if op == 'phi':
            return I['ty']
        if op == 'select':
            return I['a'][2]
        if op in ('call', 'invoke'):
            return I['ret']
        if op == 'landingpad':
            return I['ty']
        if op == 'atomicrmw':
            return I['v'][2]
        if op == 'cmpxchg':
            return StructTy([I['v'][2], IntTy(1)])
        if op == 'extractvalue':
            t = I['v'][2]
            for k in I['idx']:
                t = t.fields[k] if isinstance(t, StructTy) else t.el
            return t
        if op == 'insertvalue':
            return I['v'][2]
        raise Unsupported('result type of ' + op)

    def edge(s, frm, to, body, indent='  '):
        """emit phi copies for edge frm->to and the goto"""
        ph = s.phis.get(to)
        if not ph:
            body.append('%sgoto %s;' % (indent, s.labels[to]))
            return
        body.append('%s{' % indent)
        tmps = []
        for k, I in enumerate(ph):
            v = None
            for (val, lbl) in I['inc']:
                if lbl == frm:
                    v = val
                    break
            if v is None:
                raise Unsupported('phi without incoming for ' + frm)
            if v[0] == 'undef':
                continue
            body.append('%s  %s t%d = %s;' % (indent, s.ctype(I['ty']), k, s.val(v)))
            tmps.append((k, I))
        for k, I in tmps:
            body.append('%s  %s = t%d;' % (indent, s.loc[I['dest']], k))
        body.append('%s  goto %s;' % (indent, s.labels[to]))
        body.append('%s}' % indent)

    def ret_default(s):
        t = s.f.ret
        if isinstance(t, VoidTy):
            return 'return;'
        return 'return %s;' % s.zero(t)

    def emit_instr(s, I, lbl, body):
        op = I['op']
        d = s.loc.get(I['dest']) if I['dest'] else None
        if op == 'sub' and I['a'][0] == 'local' and I['b'][0] == 'local' and I['a'][1] in s.p2i and I['b'][1] in s.p2i \
                and I['ty'].bits == 64:
            # (ptrtoint p) - (ptrtoint q): emit a real pointer difference so CBMC sees offsets of one object
            body.append('  %s = (u64)(i64)((u8*)%s - (u8*)%s);' % (d, s.val(s.p2i[I['a'][1]]), s.val(s.p2i[I['b'][1]])))
        elif op in ('add', 'sub', 'mul', 'udiv', 'sdiv', 'urem', 'srem', 'shl', 'lshr', 'ashr', 'and', 'or', 'xor'):
            body.append('  %s = %s;' % (d, s.binop(op, I['a'], I['b'], I['ty'])))
        elif op == 'icmp':
            body.append('  %s = %s;' % (d, s.icmp(I['pred'], I['a'], I['b'])))
        elif op in ('fadd', 'fsub', 'fmul', 'fdiv', 'frem'):
            body.append('  %s = %s;' % (d, s.fbinop(op, I['a'], I['b'], I['ty'])))
        elif op == 'fneg':
            body.append('  %s = (-%s);' % (d, s.val(I['a'])))
        elif op == 'fcmp':
            body.append('  %s = %s;' % (d, s.fcmp(I['pred'], I['a'], I['b'])))
        elif op in ('trunc', 'zext', 'sext', 'bitcast', 'ptrtoint', 'inttoptr', 'addrspacecast', 'fpext', 'fptrunc', 'sitofp', 'uitofp', 'fptosi', 'fptoui'):
            body.append('  %s = %s;' % (d, s.cast(op, I['v'], I['to'])))
        elif op == 'freeze':
            body.append('  %s = %s;' % (d, s.val(I['v'])))
        elif op == 'load':
            pt = I['ptr'][2]
            if isinstance(I['ty'], ArrTy):
                raise Unsupported('load of array value')
            body.append('  %s = *((%s*)%s);' % (d, s.ctype(I['ty']), s.val(I['ptr'])))
        elif op == 'store':
            vt = I['v'][2]
            if isinstance(vt, ArrTy):
                raise Unsupported('store of array value')
            body.append('  *((%s*)%s) = %s;' % (s.ctype(vt), s.val(I['ptr']), s.val(I['v'])))
        elif op == 'alloca':
            body.append('  %s = (%s)&%s_mem%s;' % (d, s.ctype(I['rty']), d, '[0]' * I['mem_depth']))
        elif op == 'getelementptr':
            body.append('  %s = %s;' % (d, s.gep(I['bt'], I['base'], I['idx'], I['rty'])))
        elif op == 'select':
            body.append('  %s = (%s ? %s : %s);' % (d, s.val(I['c']), s.val(I['a']), s.val(I['b'])))
        elif op == 'br':
            if 'target' in I:
                s.edge(lbl, I['target'], body)
            else:
                body.append('  if (%s)' % s.val(I['c']))
                s.edge(lbl, I['t'], body, '    ')
                body.append('  else')
                s.edge(lbl, I['f'], body, '    ')
        elif op == 'switch':
            body.append('  switch (%s) {' % s.val(I['v']))
            for cv, tgt in I['cases']:
                body.append('  case %s:' % s.intlit(cv[1], cv[2]))
                s.edge(lbl, tgt, body, '    ')
            body.append('  default:')
            s.edge(lbl, I['dflt'], body, '    ')
            body.append('  }')
        elif op == 'ret':
            if I['v'] is None:
                body.append('  return;')
            else:
                body.append('  return %s;' % s.val(I['v']))
        elif op in ('call', 'invoke'):
            s.emit_call(I, lbl, body)
        elif op == 'landingpad':
            body.append('  %s = ir2c_landingpad_%s(%s);' % (d, s.aname(I['ty']) if not I['ty'].name else s.sname(I['ty']),
                                                         s.lp_clauses(I)))
            s.lp_types.add(I['ty'].key())
            s.lp_tymap[I['ty'].key()] = I['ty']
        elif op == 'resume':
            body.append('  ir2c_resume((%s).f0);' % s.val(I['v']))
            body.append('  ' + s.ret_default())
        elif op == 'fence':
            pass
        elif op == 'atomicrmw':
            # single-threaded harnesses only: plain read-modify-write
            if ATOMICS_ARE_MODEL_LIMIT:
                body.append('  ir2c_model_limit_atomics();')
            t = I['v'][2]
            ct = s.ctype(t)
            body.append('  %s = *((%s*)%s);' % (d, ct, s.val(I['ptr'])))
            k = I['rmw']
            if k == 'xchg':
                new = s.val(I['v'])
            elif k in ('add', 'sub', 'and', 'or', 'xor'):
                new = s.binop(k, ('local', I['dest'], t), I['v'], t)
            else:
                raise Unsupported('atomicrmw ' + k)
            body.append('  *((%s*)%s) = %s;' % (ct, s.val(I['ptr']), new))
        elif op == 'cmpxchg':
            t = I['v'][2]
            ct = s.ctype(t)
            if ATOMICS_ARE_MODEL_LIMIT:
                body.append('  ir2c_model_limit_atomics();')
            body.append('  %s.f0 = *((%s*)%s);' % (d, ct, s.val(I['ptr'])))
            body.append('  %s.f1 = (u1)(%s.f0 == %s);' % (d, d, s.val(I['cmp'])))
            body.append('  if (%s.f1) *((%s*)%s) = %s;' % (d, ct, s.val(I['ptr']), s.val(I['v'])))
        elif op == 'unreachable':
            body.append('  IR2C_UNREACHABLE();')
            body.append('  ' + s.ret_default())
        elif op == 'extractvalue':
            e = s.val(I['v'])
            for k in I['idx']:
                e += '.f%d' % k
            body.append('  %s = %s;' % (d, e))
        elif op == 'insertvalue':
            body.append('  %s = %s;' % (d, s.val(I['v'])))
            e = d
            for k in I['idx']:
                e += '.f%d' % k
            body.append('  %s = %s;' % (e, s.val(I['e'])))
        else:
            raise Unsupported('emit ' + op)

    def lp_clauses(s, I):
        # encode clauses as a 0-terminated list of typeinfo pointers; catch-all = (void*)1 ; cleanup ignored
        parts = []
        for kind, v in I['clauses']:
            if kind == 'catch':
                if v[0] == 'null':
                    parts.append('(void*)1')
                else:
                    parts.append('(void*)%s' % s.val(v))
            elif kind == 'filter':
                raise Unsupported('filter clause')
        cleanup = any(k == 'cleanup' for k, _ in I['clauses'])
        return '%d, (void*[]){%s (void*)0}' % (1 if cleanup else 0, ''.join(p + ', ' for p in parts))

    def emit_call(s, I, lbl, body):
        callee = I['callee']
        d = s.loc.get(I['dest']) if I['dest'] else None
        args = I['args']
        name = callee[1] if callee[0] == 'global' else None
        if name:
            name = s.mod.aliases.get(name, name)
        nounwind = 'nounwind' in I['attrs']
        if name and name.startswith('@llvm.'):
            s.emit_intrinsic(I, name, d, body)
            if I['op'] == 'invoke':
                s.edge(lbl, I['normal'], body)
            return
        argv = []
        for (a, info) in args:
            if 'byval' in info:
                raise Unsupported('byval argument')
            argv.append(s.val(a))
        if name in ('@_Znwm', '@_Znam', '@malloc', '@__cxa_allocate_exception') and d and args[0][0][0] == 'int' and I['dest'] in s.cast_of \
                and isinstance(s.cast_of[I['dest']], (StructTy, IntTy, PtrTy)) \
                and not getattr(s.cast_of[I['dest']], 'opaque', False):
            n = args[0][0][1]
            # after inlining the FIRST bitcast of a fresh allocation is often the vptr slot or a leading member; prefer the
            # struct type whose size is exactly the allocation size (x86-64 layout), so that CBMC gets a typed object
            best = s.cast_of[I['dest']]
            for cand in s.cast_all.get(I['dest'], []):
                if isinstance(cand, StructTy) and not getattr(cand, 'opaque', False):
                    try:
                        if s.sizeof(cand) == n:
                            best = cand
                            break
                    except Unsupported:
                        pass
            T = s.ctype(best)
            body.append('  %s = (u8*)IR2C_NEW(%s, %dULL);' % (d, T, n))
            if I['op'] == 'invoke':
                s.edge(lbl, I['normal'], body)
            return
        if name and name in s.mod.funcs:
            fdef = s.mod.funcs[name]
            if 'nounwind' in fdef.attrs:
                nounwind = True
            # cast args to declared param types if a prototype exists
            cargs = []
            for i, av in enumerate(argv):
                if i < len(fdef.params):
                    cargs.append('(%s)%s' % (s.ctype(fdef.params[i][0]), av)
                                 if not isinstance(fdef.params[i][0], StructTy) else av)
                else:
                    cargs.append(av)
            call = '%s(%s)' % (s.gname(name), ', '.join(cargs))
            if I['ret'].key() != fdef.ret.key() and not isinstance(I['ret'], VoidTy):
                call = '((%s)%s)' % (s.ctype(I['ret']), call)
        else:
            # indirect call (or call through a cast): build precise prototype
            ptys = [a[2] for (a, _) in args]
            vararg = bool(I['fnty'] and I['fnty'].vararg)
            proto = s.fnproto(I['ret'], I['fnty'].params if I['fnty'] else ptys, vararg, '(*)')
            call = '((%s)%s)(%s)' % (proto, s.val(callee) if callee[0] != 'global' else s.gaddr(callee[1], None),
                                     ', '.join(argv))
        if d and not isinstance(I['ret'], VoidTy):
            body.append('  %s = %s;' % (d, call))
        else:
            body.append('  %s;' % call)
        if I['op'] == 'invoke':
            body.append('  if (ir2c_exc.active)')
            if LEAK_ON_UNWIND and I['unwind'] in s.cleanup_only:
                # opt-in cut: a cleanup-only landing pad (destructors of locals, then resume) is skipped; the exception
                # stays pending and propagates.  Only destructor side effects on exceptional paths are lost.
                body.append('    ' + s.ret_default())
            else:
                s.edge(lbl, I['unwind'], body, '    ')
            body.append('  else')
            s.edge(lbl, I['normal'], body, '    ')
        elif not nounwind:
            body.append('  if (ir2c_exc.active) %s' % s.ret_default())

    def emit_intrinsic(s, I, name, d, body):
        args = [a for (a, _) in I['args']]
        base = name[len('@llvm.'):]
        if base.startswith(('lifetime.', 'experimental.noalias', 'dbg.', 'assume', 'invariant.', 'prefetch')):
            return
        if (base.startswith('memcpy.') or base.startswith('memmove.')) and args[2][0] == 'int':
            # constant-size copy between two pointers that were cast from the same struct type:
            # emit a typed struct assignment (keeps CBMC field-sensitive) guarded by a sizeof test
            ts = []
            for a in args[:2]:
                t = s.src_of.get(a[1]) if a[0] == 'local' else None
                if a[0] == 'ccast' and a[1][0] == 'bitcast':
                    t = a[1][1][2]
                ts.append(t.to if isinstance(t, PtrTy) else None)
            if ts[0] is not None and ts[1] is not None and isinstance(ts[0], StructTy) and ts[0].key() == ts[1].key() \
                    and not getattr(ts[0], 'opaque', False):
                T = s.ctype(ts[0])
                body.append('  if (%s == sizeof(%s)) *((%s*)%s) = *((%s*)%s); else IR2C_MEMMOVE(%s, %s, %s);' % (
                    s.val(args[2]), T, T, s.val(args[0]), T, s.val(args[1]), s.val(args[0]), s.val(args[1]), s.val(args[2])))
                return
        if base.startswith('memcpy.') or base.startswith('memmove.'):
            fn = 'IR2C_MEMCPY' if base.startswith('memcpy.') else 'IR2C_MEMMOVE'
            body.append('  %s(%s, %s, %s);' % (fn, s.val(args[0]), s.val(args[1]), s.val(args[2])))
            return
        if base.startswith('memset.'):
            body.append('  IR2C_MEMSET(%s, %s, %s);' % (s.val(args[0]), s.val(args[1]), s.val(args[2])))
            return
        t = I['ret']
        if base.startswith(('umax.', 'umin.', 'smax.', 'smin.')):
            k = base[:4]
            a, b = args
            if k[0] == 'u':
                A, B = s.val(a), s.val(b)
            else:
                A, B = s.signed(a), s.signed(b)
            c = '>' if k.endswith('max') else '<'
            body.append('  %s = (%s)((%s %s %s) ? %s : %s);' % (d, s.ctype(t), A, c, B, A, B))
            return
        if base.startswith('usub.sat.'):
            A, B = s.val(args[0]), s.val(args[1])
            body.append('  %s = (%s)((%s > %s) ? (%s - %s) : 0);' % (d, s.ctype(t), A, B, A, B))
            return
        if base.startswith('uadd.sat.'):
            A, B = s.val(args[0]), s.val(args[1])
            body.append('  %s = (%s)(((%s)(%s + %s) < %s) ? (%s)-1 : (%s + %s));' % (
                d, s.ctype(t), s.ctype(t), A, B, A, s.ctype(t), A, B))
            return
        if base.startswith(('ctlz.', 'cttz.', 'ctpop.', 'bswap.', 'abs.')):
            body.append('  %s = ir2c_%s_%d(%s);' % (d, base.split('.')[0], t.bits, s.val(args[0])))
            return
        if base.startswith(('uadd.with.overflow.', 'umul.with.overflow.', 'usub.with.overflow.')):
            k = base.split('.')[0]
            body.append('  %s.f0 = ir2c_%s_%d(%s, %s, &%s.f1);' % (d, k, t.fields[0].bits, s.val(args[0]), s.val(args[1]), d))
            return
        if base.startswith('fmuladd.'):
            # may or may not be fused; the unfused form is one of the two permitted results
            body.append('  %s = (%s)(%s * %s + %s);' % (d, s.ctype(t), s.val(args[0]), s.val(args[1]), s.val(args[2])))
            return
        if base.startswith('fabs.'):
            body.append('  %s = (%s)__builtin_fabs(%s);' % (d, s.ctype(t), s.val(args[0])))
            return
        if base == 'trap':
            body.append('  IR2C_TRAP();')
            return
        if base == 'eh.typeid.for':
            body.append('  %s = ir2c_typeid((void*)%s);' % (d, s.val(args[0])))
            return
        if base.startswith('expect.'):
            body.append('  %s = %s;' % (d, s.val(args[0])))
            return
        if base.startswith('objectsize.'):
            body.append('  %s = (%s)-1;' % (d, s.ctype(t)))
            return
        raise Unsupported('intrinsic ' + name)

    # ---- globals
    def cinit(s, v):
        k, x, t = v
        if k == 'int':
            return s.intlit(x, t)
        if k == 'null':
            return '0'
        if k in ('zero', 'undef'):
            if isinstance(t, (StructTy, ArrTy)):
                return '{0}'
            return '0'
        if k == 'cstr':
            return '{%s}' % ','.join(str(b) for b in x)
        if k == 'agg':
            return '{%s}' % ', '.join(s.cinit(e) for e in x)
        return s.val(v)

    def emit_globals(s, out_decl, out_def):
        for name, g in s.mod.globals.items():
            cn = s.gname(name)
            t = g['type']
            if g['external'] or g['init'] is None:
                # give externals room (they are only used as opaque anchors, e.g. type_info vtables)
                out_decl.append('static %s; /* external in IR: opaque anchor object */' % s.decl(ArrTy(8, t) if not isinstance(t, ArrTy) else t, cn))
                s.ext_globals.append((cn, t))
                continue
            out_decl.append('extern %s;' % s.decl(t, cn))
            out_def.append('%s = %s;' % (s.decl(t, cn), s.cinit(g['init'])))

    # ---- driver
    def run(s):
        mod = s.mod
        s.lp_types = set()
        s.lp_tymap = {}
        s.ext_globals = []
        s.loc = {}
        head = ['/* generated by ir2c -- do not edit */', '#include "ir2c_rt.h"']
        types = []
        s.emit_types(types)
        protos = []
        for name, f in mod.funcs.items():
            if name.startswith('@llvm.') or (f.vararg and not f.params):
                continue
            protos.append(s.fnproto(f.ret, [p[0] for p in f.params], f.vararg, s.gname(name)) + ';')
        gdecl, gdef = [], []
        s.emit_globals(gdecl, gdef)
        funcs = []
        for name, f in mod.funcs.items():
            if f.is_decl:
                continue
            s.emit_function(f, funcs)
        # llvm.global_ctors -> one function the harness main calls first
        ctor_calls = []
        gc = mod.globals.get('@llvm.global_ctors')
        if gc and gc['init'] and gc['init'][0] == 'agg':
            ents = []
            for e in gc['init'][1]:
                if e[0] != 'agg':
                    continue
                prio, fn = e[1][0], e[1][1]
                if fn[0] == 'global':
                    ents.append((prio[1] if prio[0] == 'int' else 65535, s.gname(fn[1])))
            for _, cn in sorted(ents, key=lambda x: x[0]):
                ctor_calls.append('  %s();' % cn)
        funcs.append('void ir2c_global_ctors(void) {\n%s\n}' % '\n'.join(ctor_calls))
        # ir2c_reset_nitro_statics(): put every MUTABLE static of nitro's own code (mangled name inside namespace nitro) back to its
        # initial value -- used by the C09 "stale view" queries, in which every thread body is extracted from the initial state of the
        # sink's own statics (= the interleaving in which all threads read that state before any of them writes it).  Statics whose
        # initialisation the language makes thread-safe (a guard variable _ZGV<x> exists) and the guards themselves are left alone.
        guarded = set('@_Z' + n[len('@_ZGV'):] for n in mod.globals if n.startswith('@_ZGV'))
        resets = []
        for name, g in mod.globals.items():
            if g['external'] or g['init'] is None or g['const'] or name.startswith('@_ZGV') or name in guarded:
                continue
            if '5nitro' not in name or name.startswith(('@_ZTV', '@_ZTI', '@_ZTS')):
                continue
            t = g['type']
            cn = s.gname(name)
            if isinstance(t, ArrTy):
                resets.append('  /* not reset (array): %s */' % cn)
            elif isinstance(t, StructTy):
                resets.append('  { %s = %s; %s = ir2c_tmp; }' % (s.decl(t, 'ir2c_tmp'), s.cinit(g['init']), cn))
            else:
                resets.append('  %s = %s;' % (cn, s.cinit(g['init'])))
        funcs.append('void ir2c_reset_nitro_statics(void) {\n%s\n}' % '\n'.join(resets))
        # prototypes of plain-named (extern "C") defined functions, for harness mains
        s.exported = []
        for name, f in mod.funcs.items():
            raw = name[1:]
            if f.is_decl or not re.fullmatch(r'[A-Za-z][A-Za-z0-9_]*', raw) or raw.startswith('_Z'):
                continue
            s.exported.append(s.fnproto(f.ret, [p[0] for p in f.params], f.vararg, s.gname(name)) + ';')
        # anon structs (discovered during emission); order by containment
        anon_out = []
        emitted = set()

        def emit_anon(t):
            k = t.key()
            if k in emitted or k in s.types_done:
                return
            emitted.add(k)
            for f in t.fields:
                ft = f
                while isinstance(ft, ArrTy):
                    ft = ft.el
                if isinstance(ft, StructTy) and not ft.name:
                    s.aname(ft)
                    emit_anon(ft)
            s.emit_struct(t, anon_out)
        i = 0
        while i < len(s.anon_list):
            emit_anon(s.anon_list[i][1])
            i += 1
        # landingpad helpers per struct type
        lp = []
        for k in sorted(s.lp_types):
            t = s.lp_tymap[k]
            nm = s.aname(t) if not t.name else s.sname(t)
            lp.append('static inline %s ir2c_landingpad_%s(int cleanup, void** clauses) { %s r; '
                      'r.f0 = (u8*)ir2c_exc.obj; r.f1 = ir2c_landing(cleanup, clauses); return r; }'
                      % (s.ctype(t), nm, s.ctype(t)))
        # typeinfo tables
        ti = s.typeinfo_tables()
        # anon structs used by value inside named structs must precede them: emit anon first, they only
        # contain scalars/pointers in practice (checked by C compiler otherwise)
        return '\n'.join(head + ['/* forward */'] + [l for l in types if l.endswith(';') and '{' not in l] +
                         anon_out + [l for l in types if '{' in l] + protos + gdecl + ti + lp + gdef + funcs) + '\n'

    def typeinfo_tables(s):
        """base_of and typeid tables from the Itanium type_info objects in the module"""
        out = []
        tis = [n for n in s.mod.globals if n.startswith('@_ZTI')]
        rows_base = []
        rows_id = []
        for i, n in enumerate(sorted(tis)):
            g = s.mod.globals[n]
            cn = s.gname(n)
            rows_id.append('  if (p == (void*)&%s) return %d;' % (cn, i + 2))
            init = g['init']
            if init and init[0] == 'agg' and len(init[1]) >= 3:
                b = init[1][2]
                rows_base.append('  if (p == (void*)&%s) return (void*)%s;' % (cn, s.val(b)))
        out.append('u32 ir2c_typeid(void* p) {\n%s\n  return 1;\n}' % '\n'.join(rows_id))
        out.append('void* ir2c_base_of(void* p) {\n%s\n  return (void*)0;\n}' % '\n'.join(rows_base))
        return out


def main():
    global LEAK_ON_UNWIND, ATOMICS_ARE_MODEL_LIMIT
    if '--atomics-are-model-limit' in sys.argv:
        ATOMICS_ARE_MODEL_LIMIT = True
        sys.argv.remove('--atomics-are-model-limit')
    if '--leak-on-unwind' in sys.argv:
        LEAK_ON_UNWIND = True
        sys.argv.remove('--leak-on-unwind')
    src = open(sys.argv[1]).read()
    mod = parse_module(src)
    em = Emitter(mod)
    c = em.run()
    open(sys.argv[2], 'w').write(c)
    if len(sys.argv) > 3:
        open(sys.argv[3], 'w').write('/* generated by ir2c: entry points in the exact generated C types */\n#include "ir2c_rt.h"\n'
                                     + '\n'.join(em.exported) + '\nvoid ir2c_global_ctors(void);\nvoid ir2c_reset_nitro_statics(void);\n')
    print('ir2c: %d types, %d globals, %d funcs -> %d lines of C' % (
        len(mod.types), len(mod.globals), len(mod.funcs), c.count('\n')), file=sys.stderr)


if __name__ == '__main__':
    try:
        main()
    except Unsupported as e:
        print('ir2c: UNSUPPORTED: %s' % e, file=sys.stderr)
        sys.exit(3)
