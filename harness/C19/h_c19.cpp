// C19 harness: nitro::env::get (both overloads) and dl / symbol lifetimes against a stubbed loader
#include <nitro/dl/dl.hpp>
#include <nitro/env/get.hpp>
#include <memory>
#include <string>

extern "C" {
// 0 = returned (out filled), 1 = raised nitro exception, 2 = anything else
int k_env_get(const char* name, unsigned nl, int has_default, const char* dflt, unsigned dl_, char* out, unsigned cap, unsigned* len);
// loader history. ops: 0 open "1"/"2" into lib slot, 1 load symbol from lib slot s into sym slot t, 2 copy lib s -> other slot,
// 3 copy sym s -> other slot, 4 call sym s, 5 destroy lib s, 6 destroy sym s.  args: bit0 = s, bit1 = t / library number
// per step: res[k] = 0 done, 1 dl::exception with the stub's diagnostic, 2 dl::exception with another diagnostic, 3 other exception, 4 skipped (slot empty)
int hook_snapshot(unsigned step); // provided by the harness main: records which handles are open after the step
int dl_history(unsigned n, const int* ops, const int* args, int* res, int* callret, int* late);
// ops 7 / 8 / 9: copy-ASSIGN symbol s onto the other slot's symbol, move-assign it (the source is destroyed right after), copy-assign dl object s onto the other slot's
// late[k]: the diagnostic of the exception of step k read again at the END of the history, after more loader calls: 0 none, 1 intact, 2 changed
}

static unsigned put(char* d, unsigned cap, const std::string& s)
{
    for (std::size_t i = 0; i < s.size() && i < cap; ++i)
        d[i] = s[i];
    return static_cast<unsigned>(s.size());
}

int k_env_get(const char* name, unsigned nl, int has_default, const char* dflt, unsigned dl_, char* out, unsigned cap, unsigned* len)
{
    try
    {
        std::string v = has_default ? nitro::env::get(std::string(name, nl), std::string(dflt, dl_)) :
                                      nitro::env::get(std::string(name, nl), nitro::env::no_default);
        *len = put(out, cap, v);
        return 0;
    }
    catch (nitro::except::exception&)
    {
        return 1;
    }
    catch (...)
    {
        return 2;
    }
}

int dl_history(unsigned n, const int* ops, const int* args, int* res, int* callret, int* late)
{
    using lib_t = nitro::dl::dl;
    using sym_t = nitro::dl::symbol<int(int)>;
    {
        std::unique_ptr<lib_t> lib[2];
        std::unique_ptr<sym_t> sym[2];
        std::unique_ptr<nitro::dl::exception> kept[8];
        for (unsigned k = 0; k < n; ++k)
        {
            int s = args[k] & 1, t = (args[k] >> 1) & 1;
            res[k] = 0;
            callret[k] = 0;
            try
            {
                switch (ops[k])
                {
                case 0:
                    lib[s] = std::make_unique<lib_t>(t ? "2" : "1");
                    break;
                case 1:
                    if (lib[s])
                        sym[t] = std::make_unique<sym_t>(lib[s]->load<int(int)>("f"));
                    else
                        res[k] = 4;
                    break;
                case 2:
                    if (lib[s])
                        lib[1 - s] = std::make_unique<lib_t>(*lib[s]);
                    else
                        res[k] = 4;
                    break;
                case 3:
                    if (sym[s])
                        sym[1 - s] = std::make_unique<sym_t>(*sym[s]);
                    else
                        res[k] = 4;
                    break;
                case 4:
                    if (sym[s])
                        callret[k] = (*sym[s])(static_cast<int>(k));
                    else
                        res[k] = 4;
                    break;
                case 7:
                    if (!sym[s])
                        res[k] = 4;
                    else if (sym[1 - s])
                        *sym[1 - s] = *sym[s];
                    else
                        sym[1 - s] = std::make_unique<sym_t>(*sym[s]);
                    break;
                case 8:
                    if (!sym[s])
                        res[k] = 4;
                    else
                    {
                        if (sym[1 - s])
                            *sym[1 - s] = std::move(*sym[s]);
                        else
                            sym[1 - s] = std::make_unique<sym_t>(std::move(*sym[s]));
                        sym[s].reset();
                    }
                    break;
                case 9:
                    if (!lib[s])
                        res[k] = 4;
                    else if (lib[1 - s])
                        *lib[1 - s] = *lib[s];
                    else
                        lib[1 - s] = std::make_unique<lib_t>(*lib[s]);
                    break;
                case 5:
                    lib[s].reset();
                    break;
                case 6:
                    sym[s].reset();
                    break;
                }
            }
            catch (nitro::dl::exception& e)
            {
                res[k] = (e.dlerror() == "bad" || e.dlerror() == "nos") ? 1 : 2;
                if (k < 8)
                    kept[k] = std::make_unique<nitro::dl::exception>(e); // a caller may keep the exception and report it later
            }
            catch (...)
            {
                res[k] = 3;
            }
            hook_snapshot(k);
        }
        ::dlerror(); // some further loader activity before the kept exceptions are read again
        for (unsigned k = 0; k < n && k < 8; ++k)
            late[k] = !kept[k] ? 0 : (kept[k]->dlerror() == "bad" || kept[k]->dlerror() == "nos") ? 1 : 2;
    }
    hook_snapshot(n);
    return 0;
}
