/* C19: env::get reports faithfully; a loaded library stays mapped while any dl / symbol / copy lives and is closed exactly once */
#include "vharness.h"
#include "all.h"
#ifndef NOPS
#define NOPS 4
#endif
#ifndef FAIL_AT
#define FAIL_AT (-1)
#endif
#ifndef VL
#define VL 0
#endif
#ifndef NL_
#define NL_ 1
#endif
#ifndef DL_
#define DL_ 0
#endif
/* ---- environment stub ---- */
static u8 env_name[NL_ + 1]; static u8 env_value[VL + 1]; static u32 env_set;
u8* ir2c_getenv(u8* name)
{
    u32 i = 0; while (env_name[i] && env_name[i] == name[i]) ++i;
    if (env_name[i] == 0 && name[i] == 0 && env_set) return env_value;
    return 0;
}
/* ---- loader stub: every successful dlopen returns a fresh handle; closes are counted per handle ---- */
#define MAXH 4
static u8 handle_obj[MAXH]; static u32 h_open[MAXH], h_closes[MAXH], h_lib[MAXH], n_handles;
static u32 open_fails[NOPS], sym_fails[NOPS], cur_step;
static u8 err_bad[4] = "bad", err_nos[4] = "nos"; static u8* pending_err;
/* like the real loader, the stub keeps ONE diagnostic buffer and re-uses it: every later loader call overwrites it */
static u8 errbuf[4];
static void clobber(void) { if (!pending_err) { errbuf[0] = 'o'; errbuf[1] = 'l'; errbuf[2] = 'd'; errbuf[3] = 0; } }
static u8* diag(u8* d) { for (int i = 0; i < 4; ++i) errbuf[i] = d[i]; return errbuf; }
static u32 snap[(NOPS + 1) * MAXH];
static int hidx(u8* h) { for (int i = 0; i < MAXH; ++i) if (h == &handle_obj[i]) return i; return -1; }
u8* ir2c_dlopen(u8* name, u32 flags)
{
    (void)flags;
    clobber();
    if (open_fails[cur_step] || n_handles >= MAXH) { pending_err = diag(err_bad); return 0; }
    u32 h = n_handles++; h_open[h] = 1; h_lib[h] = name[0] == '2' ? 2 : 1; pending_err = 0;
    return &handle_obj[h];
}
u32 ir2c_dlclose(u8* p)
{
    clobber();
    int h = hidx(p);
    CHECK(h >= 0 && h_open[h], "C19: dlclose is called on a handle that is open (never twice, never on garbage)");
    if (h >= 0) { h_open[h] = 0; h_closes[h]++; }
    return 0;
}
u8* ir2c_dlerror(void) { clobber(); u8* e = pending_err; pending_err = 0; return e; }
static u32 called_ok = 1;
static u32 fn0(u32 x) { if (!h_open[0]) called_ok = 0; return x + 100; }
static u32 fn1(u32 x) { if (!h_open[1]) called_ok = 0; return x + 200; }
static u32 fn2(u32 x) { if (!h_open[2]) called_ok = 0; return x + 300; }
static u32 fn3(u32 x) { if (!h_open[3]) called_ok = 0; return x + 400; }
u8* ir2c_dlsym(u8* p, u8* name)
{
    (void)name;
    int h = hidx(p);
    CHECK(h >= 0 && h_open[h], "C19: dlsym is called on an open handle");
    clobber();
    if (sym_fails[cur_step]) { pending_err = diag(err_nos); return 0; }
    pending_err = 0;
    return h == 0 ? (u8*)&fn0 : h == 1 ? (u8*)&fn1 : h == 2 ? (u8*)&fn2 : (u8*)&fn3;
}
u32 hook_snapshot(u32 step) { for (int i = 0; i < MAXH; ++i) snap[step * MAXH + i] = h_open[i]; cur_step = step + 1 < NOPS ? step + 1 : NOPS - 1; return 0; }

int main(void)
{
    ir2c_global_ctors();
#if defined(MODE_ENV)
    in_fill(env_name, NL_);
    u8 qname[NL_ + 1]; in_fill(qname, NL_);          /* queried name: may or may not be the bound one */
    env_set = in_range(0, 1); in_fill(env_value, VL);
    u8 dflt[DL_ + 1]; in_fill(dflt, DL_);
    u32 has_default = in_range(0, 1);
    u8 out[VL + DL_ + 2]; u32 len = 0; memset(out, 0, sizeof out);
    u32 st = k_env_get(qname, NL_, has_default, dflt, DL_, out, sizeof out, &len);
    int same_name = 1; for (int i = 0; i < NL_; ++i) if (qname[i] != env_name[i]) same_name = 0;
    int is_set = same_name && env_set;
    if (is_set) {
        int ok = st == 0 && len == VL; for (u32 i = 0; ok && i < VL; ++i) if (out[i] != env_value[i]) ok = 0;
        CHECK(ok, "C19: a set variable (also one set to the empty string) is returned exactly");
    } else if (has_default) {
        int ok = st == 0 && len == DL_; for (u32 i = 0; ok && i < DL_; ++i) if (out[i] != dflt[i]) ok = 0;
        CHECK(ok, "C19: the default is returned only when the variable is unset");
    } else CHECK(st == 1, "C19: the no-default form raises when the variable is unset");
    WITNESS_AT(is_set && st == 0, "set variable read");
    WITNESS_AT(!is_set && st == 1, "unset variable raises");
    WITNESS_AT(!is_set && st == 0, "default returned");
    OBS("st=%u len=%u\n", st, len); OBS_STR("out", out, len < sizeof out ? len : sizeof out);
#elif defined(MODE_DL)
    u32 ops[NOPS], args[NOPS], res[NOPS], ret[NOPS], late[NOPS];
    /* reference ownership: which handle each holder refers to (0 = none, h+1) */
    u32 lib[2] = { 0, 0 }, sym[2] = { 0, 0 }; u32 nh = 0; u32 exp_res[NOPS]; u32 exp_open[(NOPS + 1) * MAXH]; u32 exp_ret[NOPS];
    u32 alive[MAXH] = { 0, 0, 0, 0 };
    for (int k = 0; k < NOPS; ++k) {
#ifdef DL_OPS
        { static const u32 chosen[NOPS] = DL_OPS; ops[k] = chosen[k]; }
#else
        ops[k] = in_range(0, 9);
#endif
        #ifdef DL_ARGS
        { static const u32 chosen_a[NOPS] = DL_ARGS; args[k] = chosen_a[k]; }
#else
        args[k] = in_range(0, 3);
#endif
        #ifdef FAIL_CONCRETE
        open_fails[k] = sym_fails[k] = (k == FAIL_AT) ? 1 : 0;
#else
        open_fails[k] = sym_fails[k] = (k == FAIL_AT) ? in_range(0, 1) : 0;
#endif   /* the loader call of ONE designated step fails or not: decided by the solver */
        u32 s = args[k] & 1, t = (args[k] >> 1) & 1;
        exp_res[k] = 0; exp_ret[k] = 0;
        switch (ops[k]) {
        case 0: if (open_fails[k] || nh >= MAXH) exp_res[k] = 1; else lib[s] = ++nh; break;
        case 1: if (!lib[s]) exp_res[k] = 4; else if (sym_fails[k]) exp_res[k] = 1; else sym[t] = lib[s]; break;
        case 2: if (!lib[s]) exp_res[k] = 4; else lib[1 - s] = lib[s]; break;
        case 3: case 7: if (!sym[s]) exp_res[k] = 4; else sym[1 - s] = sym[s]; break;
        case 8: if (!sym[s]) exp_res[k] = 4; else { sym[1 - s] = sym[s]; sym[s] = 0; } break;
        case 9: if (!lib[s]) exp_res[k] = 4; else lib[1 - s] = lib[s]; break;
        case 4: if (!sym[s]) exp_res[k] = 4; else exp_ret[k] = (u32)k + 100 * sym[s]; break;
        case 5: lib[s] = 0; break;
        case 6: sym[s] = 0; break;
        }
        for (u32 h = 0; h < MAXH; ++h) exp_open[k * MAXH + h] = (lib[0] == h + 1 || lib[1] == h + 1 || sym[0] == h + 1 || sym[1] == h + 1);
    }
    for (u32 h = 0; h < MAXH; ++h) exp_open[NOPS * MAXH + h] = 0;
    cur_step = 0;
    for (int k = 0; k < NOPS; ++k) late[k] = 0;
    dl_history(NOPS, ops, args, res, ret, late);
    for (int k = 0; k < NOPS; ++k) {
        CHECK(res[k] != 2 && res[k] != 3, "C19: a failed open / lookup raises the dl exception carrying the loader's diagnostic");
        CHECK(res[k] == exp_res[k], "C19: open / lookup fail exactly when the loader fails");
        CHECK(late[k] == (exp_res[k] == 1 ? 1u : 0u), "C19: the dl exception CARRIES the loader's diagnostic: a kept copy still reports it after further loader calls have re-used the loader's buffer");
        if (ops[k] == 4 && exp_res[k] == 0) CHECK(ret[k] == exp_ret[k], "C19: calling a symbol reaches the function of the library it was loaded from");
    }
    CHECK(called_ok, "C19: a symbol is never called after its library was closed");
    int ok = 1; for (u32 i = 0; i < (NOPS + 1) * MAXH; ++i) if (snap[i] != exp_open[i]) ok = 0;
    CHECK(ok, "C19: after every step a library is mapped exactly while a dl object, a symbol or a copy of either refers to it");
    int once = 1; for (u32 h = 0; h < MAXH; ++h) if (h_closes[h] != (h < n_handles ? 1u : 0u)) once = 0;
    CHECK(once && n_handles == nh, "C19: dlclose exactly once per successful dlopen, after the last owner died");
    WITNESS_AT(nh >= 1 && (sym[0] || sym[1]) && !lib[0] && !lib[1], "a symbol outlives every dl object of its library");
    OBS("nh=%u closes=%u,%u res=%u,%u ret=%u\n", n_handles, h_closes[0], h_closes[1], res[0], res[NOPS - 1], ret[NOPS - 1]);
#else
#error "no MODE"
#endif
    HARNESS_END();
}
