import itertools
import os, sys
sys.path.insert(0, os.path.join(os.path.dirname(__file__), '..', '..', 'tools'))
from vlib import Unit, Query, Runner
DOPS = ['open library into slot', 'load symbol from lib slot into sym slot', 'copy dl object', 'copy symbol', 'call symbol', 'destroy dl object', 'destroy symbol', 'copy-assign symbol onto the other slot', 'move-assign symbol onto the other slot and destroy the source', 'copy-assign dl object onto the other slot']


def plan(tier):
    th = tier == 'thorough'
    qs, corpus = [], []
    for nl, vl, dl in ((1, 0, 0), (1, 1, 1), (2, 3, 2), (3, 4, 3)) if th else ((1, 0, 0), (1, 1, 1), (2, 3, 2)):
        d = ['-DMODE_ENV', '-DNL_=%d' % nl, '-DVL=%d' % vl, '-DDL_=%d' % dl]
        qs.append(Query('env_n%d_v%d_d%d' % (nl, vl, dl), d, ['set variable read', 'unset variable raises', 'default returned'], unwind=2, hardcap=14, est_gb=1,
                        profile=[[ord('A')] * nl + [ord('A')] * nl + [1] + [ord('v')] * vl + [ord('d')] * dl + [1], [ord('A')] * nl + [ord('B')] * nl + [1] + [ord('v')] * vl + [ord('d')] * dl + [0],
                                 [ord('A')] * nl + [ord('A')] * nl + [0] + [ord('v')] * vl + [ord('d')] * dl + [1]],
                        sample={'name_bytes': nl, 'value_bytes': vl, 'default_bytes': dl, 'symbolic': 'bound name, queried name, set/unset, value, default, overload'}))
        corpus += [(d, p) for p in qs[-1].profile]
    n = 4
    firsts = list(itertools.product(range(7), repeat=2 if th else 1))
    for f in firsts:
        # the first operation(s) enumerated outside the solver, the remaining ones symbolic
        pass
    import random
    rnd = random.Random(int(os.environ.get('VERIF_SEED', '0') or 0))
    seqs = []
    # sequences of operation KINDS and the failing step are enumerated outside the solver (symbolic choice of the operation on
    # shared_ptr-based objects had no verdict in 15 min); slots / library numbers stay symbolic
    pairs = list(itertools.product(range(7), repeat=2))
    triples = list(itertools.product(range(7), repeat=3))
    quads = list(itertools.product(range(7), repeat=4))
    # assignment between objects of DIFFERENT libraries (ops 7 / 8 / 9), followed by destroying the other owners and a call
    assigning = [((0, 0, 1, 1, 7, 6, 5, 5, 4), [0, 3, 0, 3, 1, 1, 1, 0, 0]), ((0, 0, 1, 1, 8, 5, 5, 4), [0, 3, 0, 3, 1, 1, 0, 0]), ((0, 0, 1, 1, 7, 5, 5, 6, 4), [0, 3, 0, 3, 0, 0, 1, 0, 1]),
                 ((0, 0, 9, 1, 5, 5, 4), [0, 3, 1, 0, 0, 1, 0]), ((0, 1, 7, 5, 6, 4), [0, 0, 0, 0, 0, 1]), ((0, 1, 8, 5, 4), [0, 0, 0, 0, 1]), ((0, 0, 1, 9, 5, 5, 4), [0, 3, 0, 0, 0, 1, 0])]
    handpicked = [(0, 1, 5, 4), (0, 1, 3, 5), (0, 2, 5, 1), (0, 1, 5, 6), (0, 1, 6, 5), (0, 0, 1, 4), (0, 1, 1, 4), (0, 2, 1, 5), (0, 1, 3, 6), (0, 5, 0, 1)]
    if th:
        chosen = [(sq, f) for sq in triples for f in (-1, 0, 1, 2)] + [(sq, rnd.randint(-1, 3)) for sq in rnd.sample(quads, 400)] + [(sq, f) for sq in handpicked for f in (-1, 0, 1, 2, 3)]
    else:
        chosen = [(sq, rnd.randint(-1, 1)) for sq in pairs] + [(sq, rnd.randint(-1, 2)) for sq in rnd.sample(triples, 40)] + [(sq, -1) for sq in handpicked] + \
                 [(sq, rnd.randint(0, 3)) for sq in handpicked]
    chosen = [(sq, -1, sl) for sq, sl in assigning] + [(sq, f, None) for sq, f in chosen]
    for sq, fail_at, fixed_slots in chosen:
        nops = len(sq)
        for rep in range(2 if fixed_slots is None else 1):
            slots = fixed_slots or [rnd.randint(0, 3) for _ in sq]
            d = ['-DMODE_DL', '-DNOPS=%d' % nops, '-DFAIL_AT=%d' % fail_at, '-DDL_OPS={%s}' % ','.join(map(str, sq)), '-DDL_ARGS={%s}' % ','.join(map(str, slots))]
            later_loader_call = fail_at >= 0 and any(x in (0, 1, 2, 3) for x in sq[fail_at + 1:])
            if later_loader_call:
                d.append('-DFAIL_CONCRETE')   # a symbolic throw followed by more shared_ptr traffic costs minutes: the failure is then enumerated too
            qs.append(Query('dl_%s_%s_f%s' % (''.join(map(str, sq)), ''.join(map(str, slots)), 'n' if fail_at < 0 else str(fail_at)), d, [], unwind=2, hardcap=max(16, (nops + 1) * 4 + 4), harness_unwind=max(18, (nops + 1) * 4 + 2), est_gb=1, timeout=600,
                            profile=[[0], [1]], sample={'operations': [DOPS[x] for x in sq], 'slots': slots,
                                                        'symbolic': 'nothing' if fail_at < 0 or later_loader_call else 'whether the loader call of step %d fails' % fail_at,
                                                        'failing_step': fail_at}))
    corpus += [(q.defs, v) for q in qs[-60::7] for v in ([0], [1])]
    u = Unit('envdl', 'harness/C19/h_c19.cpp', 'harness/C19/cb_c19.c', repo_srcs=['src/env/get.cpp'], caps={'str': 40, 'vec': 2, 'ss': 40}, cxx_defs=['-DNITRO_VERIF_NO_MESSAGES'],
             queries=qs, corpus=corpus, wrap=['getenv', 'dlopen', 'dlsym', 'dlclose', 'dlerror'], native_link=['-ldl'])
    return Runner('C19', tier, [u], bounds={'env': 'names 1..3 bytes, values 0..4 bytes (empty included), defaults 0..3 bytes, all bytes symbolic, set/unset and overload symbolic',
                                             'loader_history': 'operation sequences (all pairs + sampled triples/4-sequences, thorough: all triples) and slot assignments are enumerated OUTSIDE the solver; the solver decides whether the loader call of one designated step fails'},
                  outside=['the real dynamic loader (stubbed: dlopen returns a fresh handle or NULL with a diagnostic; dlsym returns the address or NULL with a diagnostic)',
                           'dl(self_tag)', 'a NULL symbol address without error (legal for dlsym; calling it is up to the caller)', 'histories longer than the bound', 'two or more loader failures in one history'],
                  assumptions=['std::shared_ptr<void> with deleter is the real libstdc++ header code; its atomic reference count is lowered to plain read-modify-write (single-threaded harness)',
                               'getenv / dlopen / dlsym / dlclose / dlerror are stubs that follow their documented contracts and count calls per handle'])
