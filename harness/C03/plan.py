import os, sys
sys.path.insert(0, os.path.join(os.path.dirname(__file__), '..', 'parser'))
from common import *  # noqa

P = 'C03'


def plan(tier):
    th = tier == 'thorough'
    E = ['-DENV_TRAILING_SEP_EITHER']
    qs = []
    # configurations are enumerated outside the solver: kind x {given on the command line or not} x {env unset / set to a symbolic string (may be empty)}
    #   x {default declared or not} x {optional or required}; inside each the environment content and the command-line value are symbolic bytes
    # decl 5: env-bound, optional, no default      decl 6: env-bound with default       decl 7: option env-bound required, toggle default 2
    # decl 8: multi env-bound required              decl 11: not bound (required option, optional multi)
    for decl, kinds in ((5, (0, 1, 2)), (6, (0, 1, 2)), (7, (0, 1)), (8, (0,))):
        for k in kinds:
            wit = [W_OK, 'value taken from the environment']
            if (decl, k) in ((5, 2), (6, 2), (7, 0), (7, 1), (8, 0)):
                wit.append(W_ERR)
            toks = ['--o=v'] if (decl, k) == (7, 1) else []      # decl 7: the required option has to be given for the toggle's source to matter
            qs.append(Q(P, decl, toks, env={k: '***'}, wit=wit, extra=E + ['-DWIT_ENVSRC=%d' % k]))       # not given, env symbolic (incl. empty, '-5', '--a', ';')
        qs.append(Q(P, decl, [], wit=(W_OK,) if decl in (5, 6) else (W_ERR,), extra=E))                      # not given, env unset
    qs += [Q(P, 5, ['--o=**'], env={0: '**'}, extra=E, wit=(W_OK,)), Q(P, 5, ['--m', '**'], env={1: '**'}, extra=E, wit=(W_OK, W_ERR)),
           Q(P, 5, ['-t'], env={2: '**'}, extra=E, wit=(W_OK,)), Q(P, 6, ['--o', '**'], env={0: '**'}, extra=E), Q(P, 6, ['--m=**'], env={1: '**'}, extra=E, wit=(W_OK,)),
           Q(P, 6, ['--t'], env={2: '**'}, extra=E, wit=(W_OK,)), Q(P, 6, ['--no-t'], env={2: '***'}, extra=E, wit=(W_OK,)), Q(P, 7, ['--o=*'], env={0: '**'}, extra=E, wit=(W_OK,)), Q(P, 8, ['--m=*'], env={0: '**'}, extra=E, wit=(W_OK,)),
           Q(P, 11, ['--o=*', '**'], extra=E), Q(P, 11, ['**'], extra=E, wit=(W_ERR,)), Q(P, 5, [], env={0: '**', 1: '**', 2: '**'}, extra=E)]
    if th:
        qs += [Q(P, 5, [], env={0: '*****'}, extra=E, wit=(W_OK,)), Q(P, 5, [], env={1: '*****'}, extra=E, wit=(W_OK,), timeout=3000), Q(P, 8, [], env={0: '*****'}, extra=E, timeout=3000),
               Q(P, 5, ['***'], env={0: '**', 1: '**', 2: '**'}, extra=E, timeout=3000), Q(P, 6, ['***'], env={0: '**', 1: '**', 2: '**'}, extra=E, timeout=3000),
               Q(P, 7, ['***'], env={0: '***', 1: '***'}, extra=E, timeout=3000)]
    return Runner(P, tier, [parser_unit('parser', qs, base_corpus(P, decls=[5, 6, 7, 8, 11]))],
                  bounds=dict(BOUNDS_NOTE, environment='each bound variable: unset, or any byte string up to 3 (thorough: 5) bytes incl. empty; configurations enumerated outside the solver'),
                  outside=OUTSIDE + ['whether "a;" yields a trailing empty element (the statement says "split at ;" only; both answers are accepted)'], assumptions=ASSUME)
