import os, sys
sys.path.insert(0, os.path.join(os.path.dirname(__file__), '..', 'parser'))
from common import *  # noqa


def plan(tier):
    qs = []
    qs.append(Query('probe', shape_defs(1, ['???'], 'C04'), ['parse succeeds', 'parse raises the user-input error'], unwind=2, est_gb=3, profile=profile_vins(['???']),
                    sample={'decl': 1, 'tokens': ['???']}))
    corpus = base_corpus('ALL')
    return Runner('C04', tier, [parser_unit('parser', qs, corpus)])
