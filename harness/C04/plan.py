import os, sys
sys.path.insert(0, os.path.join(os.path.dirname(__file__), '..', 'parser'))
from common import *  # noqa

P = 'C04'


def plan(tier):
    th = tier == 'thorough'
    qs = [
        Q(P, 1, ['****']),                             # every single token up to 4 bytes: ---x, --=x, -=, -, bundles, =forms
        Q(P, 1, ['--o', '***']), Q(P, 1, ['-q', '***']),   # value-taking option followed by any token (value present / option-like / --)
        Q(P, 1, ['--', '***'], wit=(W_OK,)),           # anything after --
        Q(P, 1, ['--', 'a', 'b', '***'], wit=(W_ERR,)),   # more positionals than accepted, behind --
        Q(P, 3, ['****'], wit=(W_ERR,)),                # required options, greedy, unlimited positionals: never succeeds with one token
        Q(P, 3, ['-o=*', '--m', '***']),
        Q(P, 2, ['****']),                             # reversible toggle, option with default, no positionals
        Q(P, 2, ['--no-?']), Q(P, 2, ['--no-a**'], wit=(W_OK, W_ERR)),                           # --no-<any name>
        Q(P, 4, ['****']),
        Q(P, 5, [], env={0: '***'}, wit=(W_OK,)),      # environment: option value is any string
        Q(P, 5, [], env={1: '***'}, wit=(W_OK,)),      # multi-option value list
        Q(P, 5, [], env={2: '***'}),                   # toggle word
        Q(P, 6, ['--no-t'], env={2: '***'}, wit=(W_OK,)),  # a toggle given (negated) on the command line: the bound variable is not even looked at, whatever it holds
        Q(P, 7, ['***'], env={0: '**'}),               # required option: command line x environment
    ]
    if th:
        H = dict(timeout=3400, est_gb=10)
        qs += [Q(P, 1, ['*****']), Q(P, 1, ['***', '***'], **H), Q(P, 3, ['***', '***'], **H), Q(P, 2, ['--?', '--no-?'], **H), Q(P, 2, ['--no-?', '-*'], **H),
               Q(P, 1, ['-x', '***'], **H), Q(P, 1, ['***', 'v'], **H), Q(P, 4, ['***', '**'], **H), Q(P, 9, ['***', '**'], **H),
               Q(P, 12, ['****']), Q(P, 10, ['****']), Q(P, 11, ['****']), Q(P, 9, ['****']),
               Q(P, 6, ['***'], env={0: '**', 2: '**'}), Q(P, 8, [], env={0: '****'}), Q(P, 5, ['**'], env={0: '**', 1: '**', 2: '**'}, **H),
               Q(P, 5, [], env={2: '*******'}, timeout=3000)]
    corpus = base_corpus(P)
    return Runner(P, tier, [parser_unit('parser', qs, corpus)], bounds=BOUNDS_NOTE, outside=OUTSIDE, assumptions=ASSUME)
