import os, sys
sys.path.insert(0, os.path.join(os.path.dirname(__file__), '..', 'parser'))
from common import *  # noqa

P = 'C04'


def plan(tier):
    th = tier == 'thorough'
    qs = [
        Q(P, 1, ['***', '***']),                       # every pair of tokens up to 3 bytes
        Q(P, 1, ['*****']),                            # dash-heavy single tokens up to 5 bytes: ---x, --=x, -=, long bundles
        Q(P, 3, ['***', '***']),                       # required options, greedy, unlimited positionals
        Q(P, 2, ['***']),                              # reversible toggle, option with default, no positionals
        Q(P, 2, ['--no-?'], wit=(W_OK, W_ERR)),        # --no-<any name>
        Q(P, 2, ['--?', '--no-?']), Q(P, 2, ['--no-?', '-*']),
        Q(P, 5, [], env={0: '***'}, wit=(W_OK,)),      # environment: option value is any string
        Q(P, 5, [], env={1: '***'}, wit=(W_OK,)),      # multi-option value list
        Q(P, 5, [], env={2: '***'}),                   # toggle word
        Q(P, 7, ['***'], env={0: '**'}),               # required option: command line x environment
    ]
    if th:
        qs += [Q(P, 1, ['***', '***', '***'], timeout=3000, est_gb=8), Q(P, 1, ['****', '****'], timeout=3000, est_gb=8),
               Q(P, 3, ['***', '***', '**'], timeout=3000, est_gb=8), Q(P, 4, ['***', '***', '**'], timeout=3000, est_gb=8),
               Q(P, 9, ['***', '***'], timeout=3000), Q(P, 12, ['***', '***']), Q(P, 10, ['****']), Q(P, 11, ['***', '***']),
               Q(P, 6, ['***'], env={0: '**', 2: '**'}), Q(P, 8, [], env={0: '****'}), Q(P, 5, ['**'], env={0: '**', 1: '**', 2: '**'}),
               Q(P, 2, ['--no-?', '--?', '**']), Q(P, 5, [], env={2: '*******'}, timeout=3000)]
    if os.environ.get('EXPERIMENT'):
        qs = [Q(P, 1, ['**', '**'], name='x22'), Q(P, 1, ['***', '*'], name='x31'), Q(P, 1, ['*', '***'], name='x13'), Q(P, 1, ['-*', '***'], name='xd13'), Q(P, 1, ['***', '-*'], name='x3d1'),
              Q(P, 1, ['?', '?'], name='xs1s1'), Q(P, 1, ['-?', '?'], name='xdss')]
    corpus = base_corpus(P)
    return Runner(P, tier, [parser_unit('parser', qs, corpus)], bounds=BOUNDS_NOTE, outside=OUTSIDE, assumptions=ASSUME)
