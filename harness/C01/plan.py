import os, sys
sys.path.insert(0, os.path.join(os.path.dirname(__file__), '..', 'parser'))
from common import *  # noqa

P = 'C01'


def plan(tier):
    th = tier == 'thorough'
    two = ['-DWIT_TWO_TOGGLES', '-DWIT_TA=0', '-DWIT_TB=1']
    qs = [
        Q(P, 1, ['***', '***'], extra=two + ['-DWIT_POS'], wit=(W_OK, W_ERR, 'a bundle of two declared toggles counts both', 'a positional is reported'),
          more_profile=[[45, 120, 121, 112, 0, 0]]),          # every pair of tokens up to 3 bytes: bundles, =forms, values, --
        Q(P, 1, ['-????'], extra=two, wit=(W_OK, W_ERR)),   # 4-letter bundles / -x=.. forms
        Q(P, 1, ['-??', '***'], extra=['-DWIT_OPT=2'], wit=(W_OK, W_ERR, 'an option receives a value'), more_profile=[[112, 61, 118, 0, 0], [120, 112, 118, 0, 0]]),
        Q(P, 3, ['-**', '***']),                               # option letter o, toggle letter t, greedy/unlimited
        Q(P, 2, ['-***']),                                     # letter equal to the long name, reversible
        Q(P, 9, ['-**', '**']),                                # options in a second group
    ]
    if th:
        qs += [Q(P, 1, ['***', '***', '***'], extra=two, timeout=3000, est_gb=8), Q(P, 1, ['-?????'], extra=two), Q(P, 3, ['***', '***', '**'], timeout=3000, est_gb=8),
               Q(P, 4, ['***', '***']), Q(P, 12, ['***', '***']), Q(P, 10, ['****']), Q(P, 11, ['***', '**']), Q(P, 9, ['***', '***'], timeout=3000)]
    return Runner(P, tier, [parser_unit('parser', qs, base_corpus(P, envdecls=[]))], bounds=BOUNDS_NOTE, outside=OUTSIDE, assumptions=ASSUME)
