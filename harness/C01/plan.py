import os, sys
sys.path.insert(0, os.path.join(os.path.dirname(__file__), '..', 'parser'))
from common import *  # noqa

P = 'C01'


def plan(tier):
    th = tier == 'thorough'
    two = ['-DWIT_TWO_TOGGLES', '-DWIT_TA=0', '-DWIT_TB=1']
    H = dict(timeout=3400, est_gb=10)
    qs = [
        Q(P, 1, ['****'], extra=two + ['-DWIT_POS'], wit=(W_OK, W_ERR, 'a bundle of two declared toggles counts both', 'a positional is reported'),
          more_profile=[[45, 120, 121, 0], [45, 120, 122, 0], [45, 120, 112, 0]]),     # every token up to 4 bytes: bundles of x,y with undeclared / option letters, =forms
        Q(P, 1, ['-????'], extra=two, wit=(W_OK, W_ERR), more_profile=[[120, 121, 120, 121], [120, 121, 122, 120], [120, 61, 49, 50], [112, 120, 121, 120]]),   # 4-letter bundles / -x=.. forms
        Q(P, 1, ['-p', '***'], extra=['-DWIT_OPT=2'], wit=(W_OK, W_ERR, 'an option receives a value')),
        Q(P, 1, ['--m', '***'], wit=(W_OK, W_ERR)),
        Q(P, 3, ['-***'], wit=(W_ERR,)),                          # option letter o and toggle letter t in one bundle
        Q(P, 2, ['-***']),                                       # letter equal to the long name, reversible
        Q(P, 9, ['-***'], wit=(W_OK, W_ERR)),                     # options in a second group
        Q(P, 4, ['****']), Q(P, 12, ['****']),
        Q(P, 2, ['--no-a**'], wit=(W_OK, W_ERR)),
        Q(P, 13, ['--a', '***'], wit=(W_OK, W_ERR)),      # long names that are prefixes of one another (toggle a, option ab, toggle abc)
        Q(P, 1, ['--o=v', '***'], extra=['-DWIT_POS'], wit=(W_OK, W_ERR, 'a positional is reported')),   # the token after a complete --name=value is nobody's value                 # the negated spelling followed by anything: =value, more name bytes
    ]
    if th:
        qs += [Q(P, 3, ['-***', 'v', '--m=*'], wit=(W_OK, W_ERR), **H), Q(P, 1, ['-?????'], extra=two), Q(P, 1, ['***', '***'], extra=two, **H), Q(P, 1, ['-xy', '***'], extra=two, **H), Q(P, 1, ['***', '-xy'], extra=two, **H), Q(P, 3, ['***', '***'], **H),
               Q(P, 1, ['-??????'], extra=two), Q(P, 10, ['****']), Q(P, 11, ['****']), Q(P, 9, ['***', '**'], **H)]
    return Runner(P, tier, [parser_unit('parser', qs, base_corpus(P, envdecls=[]))], bounds=BOUNDS_NOTE, outside=OUTSIDE, assumptions=ASSUME)
