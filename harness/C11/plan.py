import os, sys
sys.path.insert(0, os.path.join(os.path.dirname(__file__), '..', 'parser'))
from common import *  # noqa

P = 'C11'


def plan(tier):
    th = tier == 'thorough'
    H = dict(timeout=3400, est_gb=10)
    qs = [
        Q(P, 2, ['****']),                                # reversible toggle a/-a (default 1), toggle b without letter
        Q(P, 2, ['--no-?']), Q(P, 2, ['--no-a**'], wit=(W_OK, W_ERR)), Q(P, 2, ['--no-a', '***']), Q(P, 2, ['--a', '***']), Q(P, 2, ['-a', '--b', '--no-?'], wit=(W_ERR,)),
        Q(P, 1, ['-****']),                               # counts across bundles of x and y
        Q(P, 1, ['-x', '--a', '-**']),                    # mixed long/short/bundled spellings
        Q(P, 12, ['****'], wit=(W_OK, W_ERR)),            # toggle with default 2
        Q(P, 5, [], env={2: '********'}, k=10, more_profile=[[ord(c) for c in w] + [0] * (8 - len(w)) for w in ('WITHOUT', 'without', 'True', 'FALSE', 'yes', 'Off', '1', 'N')]),   # closed vocabulary: every string up to 8 bytes
        Q(P, 5, ['-*'], env={2: '***'}),                  # env consulted only when not given
        Q(P, 6, ['***'], env={2: '***'}),                 # reversible default-1 toggle + env
        Q(P, 6, ['--no-t'], env={2: '***'}, wit=(W_OK,)),  # the command line wins over the environment also for the negated spelling
        Q(P, 7, ['--o', '?'], env={1: '***'}),            # toggle default 2 + env
    ]
    if th:
        qs += [Q(P, 2, ['***', '***'], **H), Q(P, 1, ['-*****']), Q(P, 1, ['-******']), Q(P, 2, ['--no-?', '***', '--?'], **H), Q(P, 2, ['--?', '***', '--no-?'], **H),
               Q(P, 10, ['***', '***'], **H), Q(P, 6, ['--no-?'], env={2: '****'})]
    return Runner(P, tier, [parser_unit('parser', qs, base_corpus(P))], bounds=dict(BOUNDS_NOTE, env_word='every byte string of length 0..8 for the bound variable'),
                  outside=OUTSIDE, assumptions=ASSUME)
