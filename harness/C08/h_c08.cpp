// C08 harness: nitro::format (operator% / args / str / conversion / operator<<) and exception messages
#include <nitro/format/format.hpp>
#include <nitro/except/raise.hpp>
#include <ios>
#include <sstream>
#include <string>
extern "C" {
// how: 0 = operator%, 1 = args(...); via: 0 = str(), 1 = conversion to std::string, 2 = operator<< to an ostream
int k_fmt(const char* f, unsigned fl, unsigned nargs, const char* a0, unsigned l0, const char* a1, unsigned l1, const char* a2,
          unsigned l2, int how, int via, char* out, unsigned cap, unsigned* len);
int k_fmt_int(const char* f, unsigned fl, int v, char* out, unsigned cap, unsigned* len);
int k_what(const char* a, unsigned al, int n, const char* b, unsigned bl, char c, char* out, unsigned cap, unsigned* len);
// two exceptions raised one after the other on one thread; the FIRST one has a sticky stream manipulator (std::hex) among its arguments; out = message of the second
int k_what_twice(const char* a, unsigned al, int n, int n2, char* out1, unsigned* len1, char* out, unsigned cap, unsigned* len);
}
static unsigned put(char* d, unsigned cap, const std::string& s)
{
    for (std::size_t i = 0; i < s.size() && i < cap; ++i)
        d[i] = s[i];
    return static_cast<unsigned>(s.size());
}
int k_fmt(const char* f, unsigned fl, unsigned nargs, const char* a0, unsigned l0, const char* a1, unsigned l1, const char* a2,
          unsigned l2, int how, int via, char* out, unsigned cap, unsigned* len)
{
    try
    {
        auto fm = nitro::format(std::string(f, fl));
        std::string s0(a0, l0), s1(a1, l1), s2(a2, l2);
        if (how == 1)
        {
            if (nargs == 0)
                fm.args();
            else if (nargs == 1)
                fm.args(s0);
            else if (nargs == 2)
                fm.args(s0, s1);
            else
                fm.args(s0, s1, s2);
        }
        else
        {
            if (nargs >= 1)
                fm % s0;
            if (nargs >= 2)
                fm % s1;
            if (nargs >= 3)
                fm % s2;
        }
        std::string s;
        if (via == 0)
            s = fm.str();
        else if (via == 1)
        {
            std::string conv = fm;
            s = conv;
        }
        else
        {
            std::stringstream o;
            o << fm;
            s = o.str();
        }
        *len = put(out, cap, s);
        return 0;
    }
    catch (nitro::except::exception&)
    {
        return 1;
    }
    catch (...)
    {
        return 2;
    }
}
int k_fmt_int(const char* f, unsigned fl, int v, char* out, unsigned cap, unsigned* len)
{
    try
    {
        std::string s = nitro::format(std::string(f, fl)) % v;
        *len = put(out, cap, s);
        return 0;
    }
    catch (...)
    {
        return 1;
    }
}
int k_what(const char* a, unsigned al, int n, const char* b, unsigned bl, char c, char* out, unsigned cap, unsigned* len)
{
    try
    {
        nitro::raise(std::string(a, al), n, std::string(b, bl), c);
    }
    catch (nitro::except::exception& e)
    {
        *len = put(out, cap, std::string(e.what()));
        return 1;
    }
    catch (...)
    {
        return 2;
    }
    return 0;
}

int k_what_twice(const char* a, unsigned al, int n, int n2, char* out1, unsigned* len1, char* out, unsigned cap, unsigned* len)
{
    try
    {
        nitro::raise(std::string(a, al), std::hex, n);
    }
    catch (nitro::except::exception& e)
    {
        *len1 = put(out1, cap, std::string(e.what()));
    }
    try
    {
        nitro::raise(n2, std::string(a, al));
    }
    catch (nitro::except::exception& e)
    {
        *len = put(out, cap, std::string(e.what()));
        return 1;
    }
    catch (...)
    {
        return 2;
    }
    return 0;
}
