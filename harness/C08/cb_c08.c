/* C08: format substitutes placeholders positionally, verbatim, with exact arity; exception message = concatenation.
 * shape (-D): FL format length (bytes fully symbolic: {, }, {}, {{}} all arise), NARGS, AL0..AL2 argument lengths */
#include "vharness.h"
#include "all.h"
#ifndef FL
#define FL 0
#endif
#ifndef NARGS
#define NARGS 0
#endif
#ifndef AL0
#define AL0 0
#endif
#ifndef AL1
#define AL1 0
#endif
#ifndef AL2
#define AL2 0
#endif
int main(void)
{
    ir2c_global_ctors();
#if defined(MODE_FMT)
    u8 f[FL + 1], a0[AL0 + 1], a1[AL1 + 1], a2[AL2 + 1];
    in_fill(f, FL); in_fill(a0, AL0); in_fill(a1, AL1); in_fill(a2, AL2);
    u32 how = in_range(0, 1), via = in_range(0, 2);
    enum { CAP = FL + AL0 + AL1 + AL2 + 2 };
    u8 out[CAP]; u32 len = 0; memset(out, 0, sizeof out);
    u32 st = k_fmt(f, FL, NARGS, a0, AL0, a1, AL1, a2, AL2, how, via, out, CAP, &len);
    /* reference: one left-to-right scan of the FORMAT only; each {} takes the next argument text verbatim */
    const u8* as[3] = { a0, a1, a2 }; u32 ls[3] = { AL0, AL1, AL2 };
    u8 e[CAP + 8]; u32 el = 0, used = 0; int i = 0;
    while (i < FL) {
        if (i + 1 < FL && f[i] == '{' && f[i + 1] == '}') {
            if (used < NARGS) for (u32 k = 0; k < ls[used]; ++k) e[el++] = as[used][k];
            ++used; i += 2;
        } else e[el++] = f[i++];
    }
    CHECK(st != 2, "C08: only the library exception is raised");
    CHECK((st == 1) == (used != NARGS), "C08: supplying more or fewer arguments than placeholders raises, otherwise text is produced");
    if (st == 0 && used == NARGS) {
        int same = len == el; for (u32 k = 0; same && k < el; ++k) if (out[k] != e[k]) same = 0;
        CHECK(same, "C08: i-th placeholder replaced by the i-th argument verbatim, everything else preserved, arguments never rescanned");
    }
    WITNESS_AT(st == 0 && used == NARGS && NARGS >= 1, "placeholders substituted");
    WITNESS_AT(st == 1, "arity mismatch raised");
    OBS("st=%u len=%u\n", st, len); OBS_STR("out", out, len < CAP ? len : CAP);
#elif defined(MODE_INT)
    u8 f[FL + 1]; in_fill(f, FL);
    u32 v = in_range(0, 199); u32 neg = in_range(0, 1);
    i32 sv = neg ? -(i32)v : (i32)v;
    u8 out[FL + 6]; u32 len = 0; memset(out, 0, sizeof out);
    u32 st = k_fmt_int(f, FL, (u32)sv, out, FL + 6, &len);
    u8 e[FL + 8]; u32 el = 0, used = 0; int i = 0;
    while (i < FL) {
        if (i + 1 < FL && f[i] == '{' && f[i + 1] == '}') {
            if (used < 1) { if (sv < 0) e[el++] = '-'; if (v >= 100) e[el++] = '0' + v / 100; if (v >= 10) e[el++] = '0' + (v / 10) % 10; e[el++] = '0' + v % 10; }
            ++used; i += 2;
        } else e[el++] = f[i++];
    }
    CHECK((st == 1) == (used != 1), "C08: integer argument: arity rule");
    if (st == 0 && used == 1) { int same = len == el; for (u32 k = 0; same && k < el; ++k) if (out[k] != e[k]) same = 0; CHECK(same, "C08: placeholder replaced by the stream representation of an integer argument"); }
    WITNESS_AT(st == 0 && used == 1, "integer substituted");
    OBS("st=%u len=%u\n", st, len); OBS_STR("out", out, len < FL + 6 ? len : FL + 6);
#elif defined(MODE_WHAT)
    u8 a[AL0 + 1], b[AL1 + 1]; in_fill(a, AL0); in_fill(b, AL1);
    u32 n = in_range(0, 99); u8 c = in_ch();
    enum { CAP = AL0 + AL1 + 6 };
    u8 out[CAP]; u32 len = 0; memset(out, 0, sizeof out);
    u32 st = k_what(a, AL0, n, b, AL1, c, out, CAP, &len);
    u8 e[CAP + 4]; u32 el = 0;
    for (u32 k = 0; k < AL0; ++k) e[el++] = a[k];
    if (n >= 10) e[el++] = '0' + n / 10; e[el++] = '0' + n % 10;
    for (u32 k = 0; k < AL1; ++k) e[el++] = b[k];
    e[el++] = c;
    int same = st == 1 && len == el; for (u32 k = 0; same && k < el; ++k) if (out[k] != e[k]) same = 0;
    CHECK(same, "C08: the message of a raised library exception is the concatenation of the stream representations of its arguments");
    WITNESS_AT(st == 1, "exception caught with its message");
    OBS("st=%u len=%u\n", st, len); OBS_STR("out", out, len < CAP ? len : CAP);
#elif defined(MODE_WHAT2)
    /* a message is the concatenation of the stream representations of ITS OWN arguments: formatting state set by the arguments of an
       earlier exception (std::hex) must not leak into a later one */
    u8 a[AL0 + 1]; in_fill(a, AL0);
    u32 n = in_range(0, 255), n2 = in_range(0, 99);
    enum { CAP = AL0 + 8 };
    u8 out1[CAP], out[CAP]; u32 len1 = 0, len = 0; memset(out, 0, sizeof out); memset(out1, 0, sizeof out1);
    u32 st = k_what_twice(a, AL0, n, n2, out1, &len1, out, CAP, &len);
    u8 e1[CAP + 4], e[CAP + 4]; u32 el1 = 0, el = 0;
    for (u32 k = 0; k < AL0; ++k) e1[el1++] = a[k];
    if (n >= 16) e1[el1++] = "0123456789abcdef"[n / 16]; e1[el1++] = "0123456789abcdef"[n % 16];
    if (n2 >= 10) e[el++] = '0' + n2 / 10; e[el++] = '0' + n2 % 10;
    for (u32 k = 0; k < AL0; ++k) e[el++] = a[k];
    int same1 = len1 == el1; for (u32 k = 0; same1 && k < el1; ++k) if (out1[k] != e1[k]) same1 = 0;
    CHECK(same1, "C08: a stream manipulator among the arguments of raise() acts on the arguments that follow it");
    int same = st == 1 && len == el; for (u32 k = 0; same && k < el; ++k) if (out[k] != e[k]) same = 0;
    CHECK(same, "C08: the message of a raised library exception is the concatenation of the stream representations of ITS arguments (nothing is carried over from an earlier exception)");
    WITNESS_AT(st == 1 && n2 >= 16, "second exception with a number that reads differently in hexadecimal");
    OBS("st=%u len=%u len1=%u\n", st, len, len1); OBS_STR("out", out, len < CAP ? len : CAP);
#else
#error "no MODE"
#endif
    HARNESS_END();
}
