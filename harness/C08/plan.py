import itertools
import os, sys
sys.path.insert(0, os.path.join(os.path.dirname(__file__), '..', '..', 'tools'))
from vlib import Unit, Query, Runner


def prof(nbytes, tail_ranges, k=8, seed=3):
    import random
    rnd = random.Random(seed + nbytes)
    out = []
    alpha = [ord(c) for c in '{}{}ab{}']
    for i in range(k):
        v = [rnd.choice(alpha) for _ in range(nbytes)]
        if i == 0:
            v = [ord('{'), ord('}')] * (nbytes // 2) + [ord('x')] * (nbytes % 2)
        if i == 1:
            v = [ord('a')] * nbytes
        out.append(v + [rnd.randint(lo, hi) for lo, hi in tail_ranges])
    return out


def plan(tier):
    th = tier == 'thorough'
    FMAX = 5 if th else 4
    qs, corpus = [], []
    for fl in range(0, FMAX + 1):
        maxph = fl // 2
        for nargs in range(0, min(maxph + 1, 2 if not th else 3) + 1):
            # argument lengths: at least one config with empty and with 2-byte arguments (so "{}" can occur INSIDE an argument)
            for als in ([(0, 0, 0)] if nargs == 0 else ([(2, 1, 0)[:3], (0, 2, 1)] if nargs <= 2 else [(2, 0, 1)])):
                if not th and fl == FMAX and nargs == 2 and als != (2, 1, 0):
                    continue
                w = []
                if nargs >= 1 and nargs <= maxph:
                    w.append('placeholders substituted')
                if nargs != 0 or maxph >= 1:
                    w.append('arity mismatch raised')
                qs.append(Query('fmt_f%d_n%d_a%d%d%d' % ((fl, nargs) + tuple(als)), ['-DMODE_FMT', '-DFL=%d' % fl, '-DNARGS=%d' % nargs] + ['-DAL%d=%d' % (i, a) for i, a in enumerate(als)],
                                w, unwind=2, hardcap=3 * fl + 14, est_gb=3, timeout=900 if not th else 2400, profile=prof(fl + sum(als), [(0, 1), (0, 2)]),
                                sample={'format_bytes': fl, 'arguments': nargs, 'argument_bytes': list(als[:nargs]), 'supply': 'operator% or args() (symbolic)', 'read': 'str() / string conversion / operator<< (symbolic)'}))
    for fl in (2, 3, 4):
        qs.append(Query('int_f%d' % fl, ['-DMODE_INT', '-DFL=%d' % fl], ['integer substituted'], unwind=2, hardcap=24, est_gb=3, profile=prof(fl, [(0, 199), (0, 1)]),
                        sample={'format_bytes': fl, 'argument': 'int -199..199'}))
    for a, b in ((0, 0), (2, 1), (1, 2)):
        qs.append(Query('what_%d_%d' % (a, b), ['-DMODE_WHAT', '-DAL0=%d' % a, '-DAL1=%d' % b], ['exception caught with its message'], unwind=2, hardcap=24, est_gb=2, profile=prof(a + b, [(0, 99), (33, 120)]),
                        sample={'raise': 'raise(string[%d], int 0..99, string[%d], char)' % (a, b)}))
    for a in (0, 2):
        qs.append(Query('what_twice_%d' % a, ['-DMODE_WHAT2', '-DAL0=%d' % a], ['second exception with a number that reads differently in hexadecimal'], unwind=2, hardcap=24, est_gb=2, profile=prof(a, [(0, 255), (16, 99)]),
                        sample={'raise': 'raise(string[%d], std::hex, int 0..255) caught, then raise(int 0..99, string[%d]) on the same thread' % (a, a)}))

    def b(s):
        return [ord(c) for c in s]
    F = lambda fl, n, als: ['-DMODE_FMT', '-DFL=%d' % fl, '-DNARGS=%d' % n] + ['-DAL%d=%d' % (i, a) for i, a in enumerate(als)]
    # tests/format_test.cpp shapes, shortened to the capacity: "{}", "a{}b", "{}{}", "{{}}", argument containing "{}"
    corpus = [(F(2, 1, (2, 1, 0)), b('{}') + b('ab') + b('c') + [0, 0]), (F(4, 1, (2, 1, 0)), b('a{}b') + b('{}') + b('c') + [1, 1]), (F(4, 2, (2, 1, 0)), b('{}{}') + b('xy') + b('z') + [0, 2]),
              (F(4, 1, (2, 1, 0)), b('{{}}') + b('xy') + b('z') + [1, 0]), (F(4, 2, (2, 1, 0)), b('{}ab') + b('xy') + b('z') + [0, 0]), (F(3, 0, (0, 0, 0)), b('a{}') + [0, 0]),
              (F(0, 0, (0, 0, 0)), [0, 0]), (F(3, 1, (2, 1, 0)), b('}{}') + b('{}') + b('q') + [0, 1]),
              (['-DMODE_INT', '-DFL=3'], b('n{}') + [42, 0]), (['-DMODE_INT', '-DFL=2'], b('{}') + [105, 1]), (['-DMODE_INT', '-DFL=2'], b('ab') + [0, 0]),
              (['-DMODE_WHAT', '-DAL0=2', '-DAL1=1'], b('ab') + b('c') + [42, ord('!')]), (['-DMODE_WHAT', '-DAL0=0', '-DAL1=0'], [7, ord('x')]), (['-DMODE_WHAT2', '-DAL0=2'], b('ab') + [255, 16]), (['-DMODE_WHAT2', '-DAL0=0'], [10, 99])]
    caps = {'str': 16, 'vec': 4, 'ss': 16, 're': 4}
    isw = lambda d: '-DMODE_WHAT' in d or '-DMODE_WHAT2' in d
    u = Unit('format', 'harness/C08/h_c08.cpp', 'harness/C08/cb_c08.c', caps=caps, cxx_defs=['-DNITRO_VERIF_NO_MESSAGES'],
             queries=[q for q in qs if not isw(q.defs)], corpus=[c for c in corpus if not isw(c[0])])
    # the exception-message harness is built WITHOUT the message hook: message text is its subject
    w = Unit('what', 'harness/C08/h_c08.cpp', 'harness/C08/cb_c08.c', caps=caps,
             queries=[q for q in qs if isw(q.defs)], corpus=[c for c in corpus if isw(c[0])])
    return Runner('C08', tier, [u, w],
                  bounds={'format_bytes': '0..%d, every byte symbolic (so {, }, {}, {{}}, adjacent placeholders, placeholders at either end arise)' % FMAX,
                          'arguments': '0..%d strings of 0..2 symbolic bytes (arguments containing "{}" included), counts from 0 to #placeholders+1' % (3 if th else 2),
                          'integer_argument': '-199..199', 'exception_message': 'two strings of 0..2 bytes, an int 0..99, a char'},
                  outside=['wide-character formatters', 'floating-point / locale-dependent arguments', 'format strings longer than the bound', 'integers of more than 4 digits (bound of the stream model)'],
                  assumptions=['the pattern \\{\\} is interpreted by the vstd regex model (a changed pattern changes behaviour; unsupported syntax makes the check inconclusive)',
                               'unit what (exception message) is built WITHOUT the message hook; unit format skips the 60-70 byte texts of the two arity errors (hook) so that the string capacity can stay at 16'])
