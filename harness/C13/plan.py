import os, sys
sys.path.insert(0, os.path.join(os.path.dirname(__file__), '..', '..', 'tools'))
from vlib import Unit, Query, Runner
SRCS = ['src/options/parser.cpp', 'src/options/option.cpp', 'src/options/toggle.cpp', 'src/options/multi_option.cpp', 'src/options/group.cpp', 'src/env/get.cpp']
KN = ['option', 'multi_option', 'toggle']


def plan(tier):
    th = tier == 'thorough'
    qs, corpus = [], []
    for k in range(3):
        d = ['-DMODE_SHORT', '-DKIND=%d' % k]
        prof = [[1, 120, 1, 120, 0], [1, 120, 1, 121, 0], [0, 120, 2, 121, 122], [0, 120, 0, 121, 122], [1, 120, 2, 120, 120]]
        qs.append(Query('short_' + KN[k], d, ['same letter accepted again', 'different letter rejected', 'two-character short name rejected'], unwind=2, hardcap=16, est_gb=2, profile=prof,
                        sample={'claim': 'short-name rules', 'kind': KN[k], 'symbolic': 'existing letter (or none), new short name of 0..2 bytes'}))
        corpus += [(d, p) for p in prof]
    for moved in (0, 1, 2):
        for k in range(3):
            for g in range(2):
                d = ['-DMODE_REDECL', '-DKIND=%d' % k, '-DIN_G=%d' % g, '-DMOVED=%d' % moved]
                prof = [[97, 98, 99, 97], [97, 98, 99, 98], [97, 98, 99, 99], [97, 98, 99, 100], [99, 97, 98, 97]]
                qs.append(Query('redecl_%s_%s_%s' % (KN[k], 'g' if g else 'default', ['plain', 'moved', 'moved_src_destroyed'][moved]), d,
                                ['new declaration accepted', 'clashing declaration rejected'], unwind=2, hardcap=16, est_gb=3, profile=prof,
                                sample={'claim': 're-declaration across groups and kinds', 'extra_declaration': KN[k] + (' in group g' if g else ' in the default group'),
                                        'parser_object': ['not moved', 'moved before the declaration', 'moved, source parser destroyed'][moved],
                                        'symbolic': 'the three existing 1-byte names and the new name'}))
                if moved != 1 or th:
                    corpus += [(d, p) for p in prof[:3]]
    for kinds in range(3):
        for probe in (0, 1):
            d = ['-DMODE_LETTERS', '-DKINDS=%d' % kinds, '-DPROBE=%d' % probe]
            prof = [[1, 1, 1, 120, 121, 122], [1, 1, 1, 120, 120, 122], [1, 0, 1, 120, 121, 120], [0, 1, 1, 120, 121, 121], [0, 0, 0, 120, 121, 122], [1, 1, 0, 122, 121, 122]]
            qs.append(Query('letters_k%d_%s' % (kinds, 'probe' if probe else 'empty'), d, ['three distinct letters parse', 'duplicate letter refused'], unwind=2, hardcap=60, est_gb=4, profile=prof,
                            timeout=1800 if th else 900,
                            sample={'claim': 'letter uniqueness (check_parser_consistency via parse)', 'kind_triple': kinds, 'probe': 'parse -<first letter>' if probe else 'parse an empty command line',
                                    'symbolic': 'three letters and three has-letter flags'}))
            corpus += [(d, p) for p in prof[:4]]
    u = Unit('decls', 'harness/C13/h_c13.cpp', 'harness/C13/cb_c13.c', repo_srcs=SRCS, caps={'str': 52, 'vec': 5, 'map': 5, 'ss': 52, 're': 8},
             cxx_defs=['-DNITRO_VERIF_NO_MESSAGES'], queries=qs, corpus=corpus, wrap=['getenv'])
    return Runner('C13', tier, [u],
                  bounds={'names_letters': 'symbolic single bytes (so every collision pattern among them is decided by the solver)',
                          'structure': 'concrete: one pre-populated parser (option + multi-option in another group + toggle) and ONE further declaration call (3 kinds x 2 groups x {not moved, moved, moved with the source destroyed}); three declarations for the letter rule'},
                  outside=['declaration histories longer than pre-population + one call (a symbolic menu of calls was measured infeasible, DESIGN 2.3)', 'long names of more than one byte', 'more than two groups'],
                  assumptions=['string capacity 52 so that the 50-byte format string of the duplicate-letter error path fits (otherwise that path would be cut: vacuity trap, DESIGN 6/C13)',
                               'CBMC dead-object / freed-memory pointer checks play the role of ASan for the moved-parser cases'])
