/* C13: declarations stay unambiguous.  modes: MODE_SHORT (-DKIND), MODE_REDECL (-DKIND -DIN_G -DMOVED), MODE_LETTERS (-DKINDS -DPROBE) */
#include "vharness.h"
#include "all.h"
u8* ir2c_getenv(u8* n) { (void)n; return 0; }
int main(void)
{
    ir2c_global_ctors();
#if defined(MODE_SHORT)
    u32 has_first = in_range(0, 1); u8 first = in_ch(); u32 len = in_range(0, 2); u8 second[3] = { in_ch(), in_ch(), 0 };
    u32 after = 0;
    u32 st = k_short_name(KIND, has_first, first, second, len, &after);
    int must = len != 1 || (has_first && second[0] != first);
    CHECK(st != 2, "C13: only the developer error is raised");
    CHECK((st == 1) == (must != 0), "C13: a short name must be exactly one character and cannot be changed once set (the same letter again is accepted)");
    if (st == 1) CHECK(after == (has_first ? first : 0), "C13: a rejected short name leaves the declaration unchanged");
    else CHECK(after == second[0], "C13: an accepted short name is the declaration's letter");
    WITNESS_AT(st == 0 && has_first, "same letter accepted again");
    WITNESS_AT(st == 1 && len == 1, "different letter rejected");
    WITNESS_AT(st == 1 && len == 2, "two-character short name rejected");
    OBS("st=%u after=%u\n", st, after);
#elif defined(MODE_REDECL)
    u8 a = in_ch(), b = in_ch(), c = in_ch(), n = in_ch();
    ASSUME(a != b && a != c && b != c);
    u32 cnt = 0;
    u32 st = k_redeclare(a, b, c, KIND, IN_G, n, MOVED, &cnt);
    /* existing: option a in default group, multi b in group g, toggle c in default group */
    int same_a = n == a, same_b = n == b, same_c = n == c;
    int identical = (same_a && KIND == 0 && IN_G == 0) || (same_b && KIND == 1 && IN_G == 1) || (same_c && KIND == 2 && IN_G == 0);
    int clash = (same_a || same_b || same_c) && !identical;
    CHECK(st != 2, "C13: no exception other than the developer error (also after the parser object was moved / its source destroyed)");
    CHECK(st != 4, "C13: a rejected re-declaration stays rejected when it is repeated (nothing of it is left behind)");
    CHECK((st == 3) == (identical != 0), "C13: declaring the same name with the same kind in the same group again returns the identical object");
    CHECK((st == 1) == (clash != 0), "C13: any other re-declaration of a long name (other kind, other group) is rejected as a developer error, regardless of grouping and of a move of the parser");
    WITNESS_AT(st == 0, "new declaration accepted");
    WITNESS_AT(st == 1, "clashing declaration rejected");
    OBS("st=%u\n", st);
#elif defined(MODE_LETTERS)
    u32 h0 = in_range(0, 1), h1 = in_range(0, 1), h2 = in_range(0, 1); u8 l0 = in_ch(), l1 = in_ch(), l2 = in_ch();
    ASSUME(l0 != '-' && l0 != '=' && l1 != '-' && l2 != '-');
    u32 hit = 0;
    u32 st = k_letters(KINDS, h0, l0, h1, l1, h2, l2, PROBE, &hit);
    int dup = (h0 && h1 && l0 == l1) || (h0 && h2 && l0 == l2) || (h1 && h2 && l1 == l2);
    CHECK(st != 2 && st != 3, "C13: a well-declared parser parses; only the developer error signals ambiguity");
    CHECK((st == 1) == (dup != 0), "C13: a parser in which two options share a letter refuses to parse, any other one parses");
#if PROBE
    if (st == 0 && h0) CHECK(hit == 1, "C13: a spelled letter resolves to exactly its own declaration");
#endif
    WITNESS_AT(st == 0 && h0 && h1 && h2, "three distinct letters parse");
    WITNESS_AT(st == 1, "duplicate letter refused");
    OBS("st=%u hit=%d\n", st, (int)hit);
#else
#error "no MODE"
#endif
    HARNESS_END();
}
