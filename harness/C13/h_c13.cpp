// C13 harness: declarations stay unambiguous (names across groups and kinds, short-name rules, letter uniqueness, moved parser)
#include <nitro/options/parser.hpp>
#include <memory>
#include <string>
using nitro::options::parser;
using nitro::options::parser_error;

extern "C" {
// short-name rules on one declaration of kind k (0 option, 1 multi, 2 toggle): optionally give it the letter `first`, then call
// short_name(second[0..len)).  returns 0 accepted, 1 parser_error, 2 other; *letter_after = resulting short name's first byte (0 = none)
int k_short_name(unsigned kind, int has_first, char first, const char* second, unsigned len, int* letter_after);
// pre-populated parser: option A in the default group, multi-option B in group "g", toggle C in the default group (1-byte names a,b,c);
// then declare (kind, in_group_g, name n).  returns 0 new object, 1 parser_error (also when repeated), 2 other exception,
// 3 the identical existing object, 4 rejected first but accepted when the same declaration is repeated
// `moved`: 0 = plain, 1 = the parser object is moved (move-constructed) before the extra declaration, 2 = moved and the source destroyed
int k_redeclare(char a, char b, char c, unsigned kind, unsigned in_g, char n, unsigned moved, unsigned* n_decls_after);
// three declarations with optional letters; parse an empty command line: 0 parses, 1 parser_error (developer error), 2 other
int k_letters(unsigned kinds, int h0, char l0, int h1, char l1, int h2, char l2, int probe, int* probe_hit);
}

namespace
{
template <typename O>
int try_short(O& o, int has_first, char first, const char* second, unsigned len, int* letter_after)
{
    int st = 0;
    if (has_first)
        o.short_name(std::string(1, first));
    try
    {
        o.short_name(std::string(second, len));
    }
    catch (parser_error&)
    {
        st = 1;
    }
    catch (...)
    {
        st = 2;
    }
    *letter_after = o.has_short_name() ? static_cast<unsigned char>(o.short_name()[0]) : 0;
    return st;
}
unsigned count_decls(parser& p)
{
    // every declaration answers to its long name exactly once when parsed... cheaper: count through the public usage bookkeeping is
    // private, so count by re-requesting is not possible; the harness counts via parse of nothing and has_* is private too.
    (void)p;
    return 0;
}
} // namespace

int k_short_name(unsigned kind, int has_first, char first, const char* second, unsigned len, int* letter_after)
{
    parser p("a");
    if (kind == 0)
        return try_short(p.option("o"), has_first, first, second, len, letter_after);
    if (kind == 1)
        return try_short(p.multi_option("m"), has_first, first, second, len, letter_after);
    return try_short(p.toggle("t"), has_first, first, second, len, letter_after);
}

int k_redeclare(char a, char b, char c, unsigned kind, unsigned in_g, char n, unsigned moved, unsigned* n_decls_after)
{
    *n_decls_after = 0;
    try
    {
        std::unique_ptr<parser> src = std::make_unique<parser>("a");
        const void* pa = &src->option(std::string(1, a));
        const void* pb = &src->group("g").multi_option(std::string(1, b));
        const void* pc = &src->toggle(std::string(1, c));
        std::unique_ptr<parser> moved_to;
        parser* p = src.get();
        if (moved)
        {
            moved_to = std::make_unique<parser>(std::move(*src));
            p = moved_to.get();
            if (moved == 2)
                src.reset(); // the source parser object is gone: a stale back-reference would now dangle
        }
        const void* got = nullptr;
        nitro::options::group& g = in_g ? p->group("g") : p->group();
        try
        {
            if (kind == 0)
                got = &g.option(std::string(1, n));
            else if (kind == 1)
                got = &g.multi_option(std::string(1, n));
            else
                got = &g.toggle(std::string(1, n));
        }
        catch (parser_error&)
        {
            // the caller catches the developer error and goes on: the same declaration must be rejected again, and the
            // rejected name must not have been left behind (it would answer to its own letter on the command line)
            try
            {
                if (kind == 0)
                    g.option(std::string(1, n));
                else if (kind == 1)
                    g.multi_option(std::string(1, n));
                else
                    g.toggle(std::string(1, n));
                return 4; // accepted on the second attempt
            }
            catch (parser_error&)
            {
                return 1;
            }
        }
        if (got == pa || got == pb || got == pc)
            return 3;
        return 0;
    }
    catch (...)
    {
        return 2;
    }
}

int k_letters(unsigned kinds, int h0, char l0, int h1, char l1, int h2, char l2, int probe, int* probe_hit)
{
    *probe_hit = -1;
    try
    {
        parser p("a");
        // kinds selects one of the kind triples; the second declaration lives in another group
        auto& g = p.group("g");
        nitro::options::toggle* t0 = nullptr;
        if (kinds == 0)
        {
            auto& x = p.toggle("x");
            t0 = &x;
            if (h0)
                x.short_name(std::string(1, l0));
            auto& y = g.option("y").optional();
            if (h1)
                y.short_name(std::string(1, l1));
            auto& z = p.multi_option("z").optional();
            if (h2)
                z.short_name(std::string(1, l2));
        }
        else if (kinds == 1)
        {
            auto& x = p.toggle("x");
            t0 = &x;
            if (h0)
                x.short_name(std::string(1, l0));
            auto& y = g.toggle("y");
            if (h1)
                y.short_name(std::string(1, l1));
            auto& z = p.option("z").optional();
            if (h2)
                z.short_name(std::string(1, l2));
        }
        else
        {
            auto& x = p.toggle("x");
            t0 = &x;
            if (h0)
                x.short_name(std::string(1, l0));
            auto& y = g.multi_option("y").optional();
            if (h1)
                y.short_name(std::string(1, l1));
            auto& z = g.multi_option("z").optional();
            if (h2)
                z.short_name(std::string(1, l2));
        }
        try
        {
            if (probe && h0)
            {
                // spell the first declaration's letter: it must resolve to that declaration (the toggle x)
                char tok[3] = { '-', l0, 0 };
                const char* argv[2] = { "a", tok };
                auto a = p.parse(2, argv);
                *probe_hit = a.given("x");
            }
            else
            {
                const char* argv[1] = { "a" };
                p.parse(1, argv);
            }
        }
        catch (parser_error&)
        {
            return 1;
        }
        catch (nitro::options::parsing_error&)
        {
            return 3;
        }
        return 0;
    }
    catch (...)
    {
        return 2;
    }
}
