import os, sys
sys.path.insert(0, os.path.join(os.path.dirname(__file__), '..', '..', 'tools'))
from vlib import Unit, Query, Runner
KINDS = ['enumerate(lvalue vector)', 'enumerate(const vector)', 'enumerate(temporary vector)', 'enumerate(lvalue std::array)', 'enumerate(temporary std::array)', 'enumerate(built-in array)',
         'enumerate(initializer list)', 'enumerate(lvalue fixed_vector)', 'enumerate(lvalue map)', 'enumerate(one-element built-in array)', 'reverse(lvalue vector)', 'reverse(const vector)',
         'reverse(temporary vector)', 'reverse(lvalue std::array)', 'reverse(temporary std::array)', 'reverse(built-in array)', 'reverse(initializer list)', 'reverse(lvalue fixed_vector)',
         'reverse(lvalue set)', 'reverse(temporary fixed_vector)', 'enumerate(lvalue vector), hand-written loop with postfix ++', 'enumerate(lvalue vector), while loop with *it++',
         'reverse(const char[3]), any element values incl. a trailing 0', 'enumerate(const char[3])', 'enumerate(temporary std::array), adaptor copied and the original destroyed',
         'enumerate(temporary std::array), adaptor moved and the original destroyed', 'reverse(temporary std::array), adaptor copied and the original destroyed']
FIXED = {3, 4, 5, 6, 9, 13, 14, 15, 16, 22, 23, 24, 25, 26}


def plan(tier):
    qs, corpus = [], []
    for k, nm in enumerate(KINDS):
        w = ['three elements visited'] if k != 9 else []
        if k not in FIXED:
            w.append('empty range visited')
        d = ['-DKIND=%d' % k]
        prof = [[3, 5, 7, 9, 11], [0, 5, 7, 9, 11], [1, 2, 1, 0, 0], [2, 9, 3, 0, 0], [3, 1, 2, 0, 0]]
        qs.append(Query('kind%02d' % k, d, w, unwind=2, hardcap=12, est_gb=1, profile=prof, sample={'range': nm, 'length': 'fixed by the type' if k in FIXED else '0..3 symbolic', 'values': 'symbolic'}))
        corpus += [(d, p) for p in prof]
    u = Unit('adaptors', 'harness/C20/h_c20.cpp', 'harness/C20/cb_c20.c', caps={'str': 8, 'vec': 4, 'map': 4, 'ss': 8}, cxx_defs=['-DNITRO_VERIF_NO_MESSAGES'], queries=qs, corpus=corpus)
    return Runner('C20', tier, [u], bounds={'length': '0..3 symbolic for vector / fixed_vector / map / set; 3 (and 1) for arrays and initializer lists', 'values': 'symbolic ints (distinct keys for map/set)'},
                  outside=['std::list and the libstdc++ node-based containers themselves (map/set are the vstd sorted-array models with node storage)', 'lengths above 3', 'other iterator categories'],
                  assumptions=['temporaries: CBMC dead-object / freed-memory pointer checks play the role of ASan for "the temporary stays alive for the whole loop"',
                               'std::array, std::reference_wrapper, std::initializer_list, std::reverse_iterator are the real libstdc++ headers'])
