// C20 harness: enumerate / reverse over lvalue, const, temporary, initializer-list and built-in-array ranges
#include <array>
#include <memory>
#include <map>
#include <set>
#include <vector>
#include <nitro/lang/enumerate.hpp>
#include <nitro/lang/fixed_vector.hpp>
#include <nitro/lang/reverse.hpp>

extern "C" {
struct visits
{
    unsigned n;       // number of loop body executions
    unsigned idx[5];  // index reported by enumerate
    int val[5];       // value seen
    int alias_ok;     // lvalue ranges: the visited value IS the container element (same address)
    int write_ok;     // a write through the adaptor is visible in the container
};
// kind: which (adaptor, container kind, value category); n: number of elements (where the type allows); v: element values / keys
int visit(unsigned kind, unsigned n, const int* v, struct visits* o);
}

namespace
{
template <typename R, typename C>
void enum_lvalue(R&& range, C& c, struct visits* o)
{
    unsigned k = 0;
    o->alias_ok = 1;
    for (auto e : range)
    {
        if (k < 5)
        {
            o->idx[k] = static_cast<unsigned>(e.index());
            o->val[k] = e.value();
            if (&e.value() != &c[k])
                o->alias_ok = 0;
        }
        ++k;
    }
    o->n = k;
}
template <typename R>
void enum_values(R&& range, struct visits* o)
{
    unsigned k = 0;
    for (auto e : range)
    {
        if (k < 5)
        {
            o->idx[k] = static_cast<unsigned>(e.index());
            o->val[k] = e.value();
        }
        ++k;
    }
    o->n = k;
}
template <typename R>
void rev_values(R&& range, struct visits* o)
{
    unsigned k = 0;
    for (auto&& x : range)
    {
        if (k < 5)
            o->val[k] = x;
        ++k;
    }
    o->n = k;
}
} // namespace

int visit(unsigned kind, unsigned n, const int* v, struct visits* o)
{
    using nitro::lang::enumerate;
    using nitro::lang::reverse;
    o->alias_ok = 1;
    o->write_ok = 1;
    switch (kind)
    {
    case 0: // enumerate(lvalue vector): aliasing + write-through
    {
        std::vector<int> c(v, v + n);
        enum_lvalue(enumerate(c), c, o);
        for (auto e : enumerate(c))
            e.value() += 100;
        for (unsigned i = 0; i < n; ++i)
            if (c[i] != v[i] + 100)
                o->write_ok = 0;
        break;
    }
    case 1: // enumerate(const lvalue vector)
    {
        const std::vector<int> c(v, v + n);
        enum_lvalue(enumerate(c), c, o);
        break;
    }
    case 2: // enumerate(temporary vector): the temporary must stay alive for the whole loop
        enum_values(enumerate(std::vector<int>(v, v + n)), o);
        break;
    case 3: // enumerate(lvalue std::array<int,3>)
    {
        std::array<int, 3> c = { { v[0], v[1], v[2] } };
        enum_lvalue(enumerate(c), c, o);
        for (auto e : enumerate(c))
            e.value() += 100;
        for (unsigned i = 0; i < 3; ++i)
            if (c[i] != v[i] + 100)
                o->write_ok = 0;
        break;
    }
    case 4: // enumerate(temporary std::array)
        enum_values(enumerate(std::array<int, 3>{ { v[0], v[1], v[2] } }), o);
        break;
    case 5: // enumerate(built-in array)
    {
        int c[3] = { v[0], v[1], v[2] };
        enum_lvalue(enumerate(c), c, o);
        for (auto e : enumerate(c))
            e.value() += 100;
        for (unsigned i = 0; i < 3; ++i)
            if (c[i] != v[i] + 100)
                o->write_ok = 0;
        break;
    }
    case 6: // enumerate(initializer list)
        enum_values(enumerate({ v[0], v[1], v[2] }), o);
        break;
    case 7: // enumerate(lvalue fixed_vector)
    {
        nitro::lang::fixed_vector<int> c(4);
        for (unsigned i = 0; i < n; ++i)
            c.emplace_back(v[i]);
        enum_lvalue(enumerate(c), c, o);
        break;
    }
    case 8: // enumerate(lvalue map): keys in key order
    {
        std::map<int, int> m;
        for (unsigned i = 0; i < n; ++i)
            m.emplace(v[i], static_cast<int>(i));
        unsigned k = 0;
        for (auto e : enumerate(m))
        {
            if (k < 5)
            {
                o->idx[k] = static_cast<unsigned>(e.index());
                o->val[k] = e.value().first;
            }
            ++k;
        }
        o->n = k;
        break;
    }
    case 9: // enumerate(single-element built-in array)
    {
        int c[1] = { v[0] };
        enum_lvalue(enumerate(c), c, o);
        break;
    }
    case 10: // reverse(lvalue vector) + write-through
    {
        std::vector<int> c(v, v + n);
        rev_values(reverse(c), o);
        for (auto& x : reverse(c))
            x += 100;
        for (unsigned i = 0; i < n; ++i)
            if (c[i] != v[i] + 100)
                o->write_ok = 0;
        unsigned k = 0;
        for (auto& x : reverse(c))
        {
            if (n > 0 && &x != &c[n - 1 - k])
                o->alias_ok = 0;
            ++k;
        }
        break;
    }
    case 11: // reverse(const lvalue vector)
    {
        const std::vector<int> c(v, v + n);
        rev_values(reverse(c), o);
        break;
    }
    case 12: // reverse(temporary vector)
        rev_values(reverse(std::vector<int>(v, v + n)), o);
        break;
    case 13: // reverse(lvalue std::array)
    {
        std::array<int, 3> c = { { v[0], v[1], v[2] } };
        rev_values(reverse(c), o);
        for (auto& x : reverse(c))
            x += 100;
        for (unsigned i = 0; i < 3; ++i)
            if (c[i] != v[i] + 100)
                o->write_ok = 0;
        break;
    }
    case 14: // reverse(temporary std::array)
        rev_values(reverse(std::array<int, 3>{ { v[0], v[1], v[2] } }), o);
        break;
    case 15: // reverse(built-in array): elements are reference_wrappers to the originals
    {
        int c[3] = { v[0], v[1], v[2] };
        unsigned k = 0;
        for (int& x : reverse(c))
        {
            if (k < 5)
                o->val[k] = x;
            if (&x != &c[2 - k])
                o->alias_ok = 0;
            x += 100;
            ++k;
        }
        o->n = k;
        for (unsigned i = 0; i < 3; ++i)
            if (c[i] != v[i] + 100)
                o->write_ok = 0;
        break;
    }
    case 16: // reverse(initializer list)
        rev_values(reverse({ v[0], v[1], v[2] }), o);
        break;
    case 17: // reverse(lvalue fixed_vector)
    {
        nitro::lang::fixed_vector<int> c(4);
        for (unsigned i = 0; i < n; ++i)
            c.emplace_back(v[i]);
        rev_values(reverse(c), o);
        break;
    }
    case 18: // reverse(lvalue set): keys in descending order
    {
        std::set<int> s;
        for (unsigned i = 0; i < n; ++i)
            s.insert(v[i]);
        rev_values(reverse(s), o);
        break;
    }
    case 20: // enumerate(lvalue vector) iterated by hand with the POSTFIX increment
    {
        std::vector<int> c(v, v + n);
        auto e = enumerate(c);
        unsigned k = 0;
        for (auto it = e.begin(); it != e.end(); it++)
        {
            auto pr = *it;
            if (k < 5)
            {
                o->idx[k] = static_cast<unsigned>(pr.index());
                o->val[k] = pr.value();
            }
            ++k;
        }
        o->n = k;
        break;
    }
    case 21: // enumerate(lvalue vector) with *it++ in a while loop
    {
        std::vector<int> c(v, v + n);
        auto e = enumerate(c);
        auto it = e.begin();
        unsigned k = 0;
        while (it != e.end())
        {
            auto pr = *it++;
            if (k < 5)
            {
                o->idx[k] = static_cast<unsigned>(pr.index());
                o->val[k] = pr.value();
            }
            ++k;
        }
        o->n = k;
        break;
    }
    case 22: // reverse(const char[3]): a char array is an array like any other, whatever its last element is (also 0)
    {
        const char c[3] = { static_cast<char>(v[0]), static_cast<char>(v[1]), static_cast<char>(v[2]) };
        rev_values(reverse(c), o);
        break;
    }
    case 23: // enumerate(const char[3])
    {
        const char c[3] = { static_cast<char>(v[0]), static_cast<char>(v[1]), static_cast<char>(v[2]) };
        enum_values(enumerate(c), o);
        break;
    }
    case 24: // enumerate(temporary std::array): the owning adaptor is COPIED, the original adaptor dies, the copy is iterated
    {
        using A = decltype(enumerate(std::array<int, 3>{ { v[0], v[1], v[2] } }));
        A* first = new A(enumerate(std::array<int, 3>{ { v[0], v[1], v[2] } }));
        A second(*first);
        delete first;
        enum_values(second, o);
        break;
    }
    case 25: // enumerate(temporary std::array): the owning adaptor is MOVED, the original adaptor dies, the new one is iterated
    {
        using A = decltype(enumerate(std::array<int, 3>{ { v[0], v[1], v[2] } }));
        A* first = new A(enumerate(std::array<int, 3>{ { v[0], v[1], v[2] } }));
        A second(std::move(*first));
        delete first;
        enum_values(second, o);
        break;
    }
    case 26: // reverse(temporary std::array): the owning adaptor is copied, the original dies
    {
        using A = decltype(reverse(std::array<int, 3>{ { v[0], v[1], v[2] } }));
        A* first = new A(reverse(std::array<int, 3>{ { v[0], v[1], v[2] } }));
        A second(*first);
        delete first;
        rev_values(second, o);
        break;
    }
    case 19: // reverse(temporary fixed_vector)
    {
        nitro::lang::fixed_vector<int> c(4);
        for (unsigned i = 0; i < n; ++i)
            c.emplace_back(v[i]);
        rev_values(reverse(std::move(c)), o);
        break;
    }
    }
    return 0;
}
