/* C20: enumerate / reverse visit every element once, in the right order, in place.  -DKIND=<k>: adaptor x container kind x value category */
#include "vharness.h"
#include "all.h"
struct visits { u32 n; u32 idx[5]; i32 val[5]; i32 alias_ok; i32 write_ok; };
int main(void)
{
    ir2c_global_ctors();
    u32 kind = KIND;
    u32 n = in_range(0, 3);
    i32 v[4]; for (int i = 0; i < 4; ++i) v[i] = (i32)in_u32();
    int fixed3 = kind == 3 || kind == 4 || kind == 5 || kind == 6 || kind == 13 || kind == 14 || kind == 15 || kind == 16 || (kind >= 22 && kind <= 26);
    int keyed = kind == 8 || kind == 18;
    if (kind == 22 || kind == 23) for (int i = 0; i < 4; ++i) ASSUME(v[i] >= -128 && v[i] <= 127);   /* char elements, every value incl. 0 */
    if (fixed3) n = 3;
    if (kind == 9) n = 1;
    if (keyed) { /* distinct keys so that the ordered container has exactly n elements */
        for (u32 i = 0; i < n; ++i) for (u32 j = 0; j < i; ++j) ASSUME(v[i] != v[j]);
    }
    struct visits o; memset(&o, 0, sizeof o);
    visit(kind, n, (u32*)v, (void*)&o);
    int rev = (kind >= 10 && kind < 20) || kind == 22 || kind == 26;
    CHECK(o.n == n, "C20: the loop body runs exactly once per element (also for empty ranges)");
    /* expected order */
    i32 want[4];
    if (keyed) { /* ascending keys; reverse -> descending */
        i32 s[4]; for (u32 i = 0; i < n; ++i) s[i] = v[i];
        for (u32 i = 0; i < n; ++i) for (u32 j = i + 1; j < n; ++j) if (s[j] < s[i]) { i32 t = s[i]; s[i] = s[j]; s[j] = t; }
        for (u32 i = 0; i < n; ++i) want[i] = rev ? s[n - 1 - i] : s[i];
    } else for (u32 i = 0; i < n; ++i) want[i] = rev ? v[n - 1 - i] : v[i];
    int ok = 1; for (u32 i = 0; i < n && i < 5; ++i) { if (o.val[i] != want[i]) ok = 0; if (!rev && o.idx[i] != i) ok = 0; }
    if (rev) CHECK(ok, "C20: reverse(c) visits the elements in exactly the opposite order");
    else CHECK(ok, "C20: enumerate(c) visits the elements in iteration order paired with the indices 0, 1, 2, ...");
    CHECK(o.alias_ok, "C20: for lvalue ranges the visited values alias the original elements");
    CHECK(o.write_ok, "C20: writes through the adaptor are visible in the container");
    WITNESS_AT(o.n == 3, "three elements visited");
    WITNESS_AT(o.n == 0, "empty range visited");
    OBS("kind=%u n=%u alias=%d write=%d\n", kind, o.n, o.alias_ok, o.write_ok); for (u32 i = 0; i < o.n && i < 5; ++i) OBS(" %u:%d\n", o.idx[i], o.val[i]);
    HARNESS_END();
}
