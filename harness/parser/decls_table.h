/* decls_table.h -- the declaration family.  Long names are single characters so that fully symbolic tokens of <= 4 bytes can
 * spell them ("--o", "--o=", "-p=v"); letters differ from names in some tables and coincide in others.
 * The same table is compiled into the C++ harness (which builds the real parser from DECLS[k]) and into the C harness main
 * (reference specification): only the INDEX crosses the boundary. */
#ifndef DECLS_TABLE_H
#define DECLS_TABLE_H
#include "decl.h"
#define TOG(name, letter, rev, hasd, d, env, grp) { K_TOGGLE, name, letter, rev, hasd, "", d, env, 0, grp }
#define OPT(name, letter, hasd, d, env, optional, grp) { K_OPTION, name, letter, 0, hasd, d, 0, env, optional, grp }
#define MUL(name, letter, hasd, d, env, optional, grp) { K_MULTI, name, letter, 0, hasd, d, 0, env, optional, grp }
#define NDECLS 13
static const struct decl DECLS[NDECLS + 1] = {
    { 0, { { 0 } }, 0, 0 },   /* index 0 unused */
    /* two toggles, optional option and multi-option, all with letters; 2 positionals */
    { 4, { TOG("a", "x", 0, 0, 0, "", 0), TOG("b", "y", 0, 0, 0, "", 0), OPT("o", "p", 0, "", "", 1, 0), MUL("m", "q", 0, "", "", 1, 0) }, 2, 0 },
    /* reversible toggle with default 1 whose letter equals its name, toggle without letter, option with default; no positionals */
    { 3, { TOG("a", "a", 1, 1, 1, "", 0), TOG("b", "", 0, 0, 0, "", 0), OPT("o", "", 1, "d", "", 0, 0) }, 0, 0 },
    /* required option and required multi-option, toggle; unlimited positionals, greedy */
    { 3, { OPT("o", "o", 0, "", "", 0, 0), MUL("m", "", 0, "", "", 0, 0), TOG("t", "t", 0, 0, 0, "", 0) }, POS_UNLIMITED, 1 },
    /* toggle + optional option; one positional, greedy */
    { 2, { TOG("a", "x", 0, 0, 0, "", 0), OPT("o", "p", 0, "", "", 1, 0) }, 1, 1 },
    /* environment-bound, optional, no defaults */
    { 3, { OPT("o", "", 0, "", "EO", 1, 0), MUL("m", "", 0, "", "EM", 1, 0), TOG("t", "t", 0, 0, 0, "ET", 0) }, 0, 0 },
    /* environment-bound with defaults */
    { 3, { OPT("o", "", 1, "d", "EO", 0, 0), MUL("m", "", 1, "d", "EM", 0, 0), TOG("t", "", 1, 1, 1, "ET", 0) }, 0, 0 },
    /* environment-bound, required, no default */
    { 2, { OPT("o", "", 0, "", "EO", 0, 0), TOG("t", "", 0, 1, 2, "ET", 0) }, 0, 0 },
    /* environment-bound required multi-option */
    { 1, { MUL("m", "", 0, "", "EM", 0, 0) }, 0, 0 },
    /* two groups; unlimited positionals, not greedy */
    { 3, { TOG("a", "x", 0, 0, 0, "", 0), OPT("o", "p", 0, "", "", 1, 1), MUL("m", "", 0, "", "", 1, 1) }, POS_UNLIMITED, 0 },
    /* nothing but a toggle without letter; no positionals */
    { 1, { TOG("b", "", 0, 0, 0, "", 0) }, 0, 0 },
    /* not bound to env, no default: optional vs required pair */
    { 2, { OPT("o", "", 0, "", "", 0, 0), MUL("m", "", 0, "", "", 1, 0) }, 0, 0 },
    /* option with value + 2 positionals, greedy off; toggle with default 2 */
    { 2, { OPT("o", "p", 0, "", "", 1, 0), TOG("a", "x", 0, 1, 2, "", 0) }, 2, 0 },
    /* long names that are prefixes of one another, across kinds: toggle "a", option "ab", toggle "abc"; one positional */
    { 3, { TOG("a", "", 0, 0, 0, "", 0), OPT("ab", "", 0, "", "", 1, 0), TOG("abc", "", 0, 0, 0, "", 0) }, 1, 0 },
};
#endif
