/* decls_table.h -- the declaration family (selected with -DDECL=<k>).  Long names are single characters so that
 * fully symbolic tokens of <= 4 bytes can spell them ("--o", "--o=", "-p=v"); letters differ from names in some
 * tables and coincide in others. */
#ifndef DECLS_TABLE_H
#define DECLS_TABLE_H
#include "decl.h"
#ifndef DECL
#define DECL 1
#endif
#define TOG(name, letter, rev, hasd, d, env, grp) { K_TOGGLE, name, letter, rev, hasd, "", d, env, 0, grp }
#define OPT(name, letter, hasd, d, env, optional, grp) { K_OPTION, name, letter, 0, hasd, d, 0, env, optional, grp }
#define MUL(name, letter, hasd, d, env, optional, grp) { K_MULTI, name, letter, 0, hasd, d, 0, env, optional, grp }
#if DECL == 1   /* two toggles, optional option and multi-option, all with letters; 2 positionals */
static const struct decl D = { 4, { TOG("a", "x", 0, 0, 0, "", 0), TOG("b", "y", 0, 0, 0, "", 0), OPT("o", "p", 0, "", "", 1, 0), MUL("m", "q", 0, "", "", 1, 0) }, 2, 0 };
#elif DECL == 2 /* reversible toggle with default 1 whose letter equals its name, toggle without letter, option with default; no positionals */
static const struct decl D = { 3, { TOG("a", "a", 1, 1, 1, "", 0), TOG("b", "", 0, 0, 0, "", 0), OPT("o", "", 1, "d", "", 0, 0) }, 0, 0 };
#elif DECL == 3 /* required option and required multi-option, toggle; unlimited positionals, greedy */
static const struct decl D = { 3, { OPT("o", "o", 0, "", "", 0, 0), MUL("m", "", 0, "", "", 0, 0), TOG("t", "t", 0, 0, 0, "", 0) }, POS_UNLIMITED, 1 };
#elif DECL == 4 /* toggle + optional option; one positional, greedy */
static const struct decl D = { 2, { TOG("a", "x", 0, 0, 0, "", 0), OPT("o", "p", 0, "", "", 1, 0) }, 1, 1 };
#elif DECL == 5 /* environment-bound, optional, no defaults */
static const struct decl D = { 3, { OPT("o", "", 0, "", "EO", 1, 0), MUL("m", "", 0, "", "EM", 1, 0), TOG("t", "t", 0, 0, 0, "ET", 0) }, 0, 0 };
#elif DECL == 6 /* environment-bound with defaults */
static const struct decl D = { 3, { OPT("o", "", 1, "d", "EO", 0, 0), MUL("m", "", 1, "d", "EM", 0, 0), TOG("t", "", 1, 1, 1, "ET", 0) }, 0, 0 };
#elif DECL == 7 /* environment-bound, required, no default */
static const struct decl D = { 2, { OPT("o", "", 0, "", "EO", 0, 0), TOG("t", "", 0, 1, 2, "ET", 0) }, 0, 0 };
#elif DECL == 8 /* environment-bound required multi-option */
static const struct decl D = { 1, { MUL("m", "", 0, "", "EM", 0, 0) }, 0, 0 };
#elif DECL == 9 /* two groups; unlimited positionals, not greedy */
static const struct decl D = { 3, { TOG("a", "x", 0, 0, 0, "", 0), OPT("o", "p", 0, "", "", 1, 1), MUL("m", "", 0, "", "", 1, 1) }, POS_UNLIMITED, 0 };
#elif DECL == 10 /* nothing but a toggle without letter; no positionals */
static const struct decl D = { 1, { TOG("b", "", 0, 0, 0, "", 0) }, 0, 0 };
#elif DECL == 11 /* not bound to env, no default: optional vs required pair */
static const struct decl D = { 2, { OPT("o", "", 0, "", "", 0, 0), MUL("m", "", 0, "", "", 1, 0) }, 0, 0 };
#elif DECL == 12 /* option with value + 2 positionals, greedy off; toggle with default 2 */
static const struct decl D = { 2, { OPT("o", "p", 0, "", "", 1, 0), TOG("a", "x", 0, 1, 2, "", 0) }, 2, 0 };
#else
#error "unknown DECL"
#endif
#endif
