"""shared pieces of the parser-family plans (C01-C04, C11, C12, C14)"""
import itertools
import os, sys
sys.path.insert(0, os.path.join(os.path.dirname(__file__), '..', '..', 'tools'))
from vlib import Unit, Query, Runner  # noqa: E402

OPTION_SRCS = ['src/options/parser.cpp', 'src/options/option.cpp', 'src/options/toggle.cpp', 'src/options/multi_option.cpp',
               'src/options/group.cpp', 'src/env/get.cpp']
CAPS = {'str': 12, 'vec': 5, 'map': 5, 'ss': 12, 're': 8}


def cstr(s):
    return '"' + ''.join(c if (32 <= ord(c) < 127 and c not in '"\\') else '\\%03o' % ord(c) for c in s) + '"'


def shape_defs(decl, toks, prop, env=None, extra=(), second=None):
    d = ['-DDECL=%d' % decl, '-DNTOK=%d' % len(toks)] + ['-DT%d=%s' % (i, cstr(t)) for i, t in enumerate(toks)]
    d += ['-DPROP_%s' % prop]
    for k, v in sorted((env or {}).items()):
        d.append('-DENV%d=%s' % (k, cstr(v)))
    if second is not None:
        d += ['-DNTOK_B=%d' % len(second)] + ['-DU%d=%s' % (i, cstr(t)) for i, t in enumerate(second)]
    return d + list(extra)


def vin_of(toks, concrete, env=None, env_concrete=None):
    """VIN vector that instantiates the '?' holes of the templates with the bytes of the concrete strings"""
    out = []
    for t, c in zip(toks, concrete):
        assert len(t) == len(c), (t, c)
        out += [ord(cc) for tt, cc in zip(t, c) if tt == '?']
    for k in sorted((env or {})):
        t, c = env[k], env_concrete[k]
        out += [ord(cc) for tt, cc in zip(t, c) if tt == '?']
    return out


def parser_unit(name, queries, corpus, hints=None, caps=None):
    return Unit(name, 'harness/parser/h_parser.cpp', 'harness/parser/cb_parser.c', repo_srcs=OPTION_SRCS, caps=caps or CAPS,
                cxx_defs=['-DNITRO_VERIF_NO_MESSAGES'], inc=['harness/parser', 'spec'], leak_on_unwind=True, queries=queries, corpus=corpus,
                wrap=['getenv'], hints=hints or 'harness/parser/hints.json')


def sym(n):
    return '?' * n


def all_shapes(max_tok, max_len, min_tok=0):
    """every token-length vector: the complete grid of fully symbolic argument vectors inside the bound"""
    for n in range(min_tok, max_tok + 1):
        for lens in itertools.product(range(0, max_len + 1), repeat=n):
            yield [sym(l) for l in lens]


# concrete command lines (no '?'): differential corpus (pipeline build vs g++/libstdc++ build) and loop-bound profiling
CORPUS_LINES = {
    1: [[], ['-x'], ['-xy'], ['-yx', '-x'], ['--a', '--b'], ['-p', 'v'], ['-p=v'], ['--o', 'v'], ['--o=v'], ['--o='], ['-q', '1', '-q=2'], ['--m', 'a', '--m=b', '-q', 'c'],
        ['p1', 'p2'], ['p1', 'p2', 'p3'], ['--', '-x'], ['--', '--'], ['-xz'], ['-xp'], ['-px'], ['-z'], ['--z'], ['--a=1'], ['-x=1'], ['-p'], ['--o', '-x'], ['-p', 'v', '-p', 'w'],
        ['-'], ['---'], ['---x'], ['-=x'], ['--=x'], [''], ['=x'], ['a=b'], ['--o=a=b'], ['-x', 'p', '--', 'q'], ['--no-a'], ['-x-y'], ['--o', ''], ['-p', '--'], ['--o=\n'],
        ['-\xff'], ['\xff\xfe'], ['--oo'], ['-xyx'], ['--', '-'], ['p', '--', '---x']],
    2: [[], ['-a'], ['-aa'], ['--a'], ['--no-a'], ['--a', '--no-a'], ['--no-a', '--a'], ['--no-a', '--no-a'], ['--b'], ['--no-b'], ['-b'], ['--o=v'], ['--o', 'v'], ['p'], ['--a=1'], ['--no-a=1'],
        ['-a', '--no-a'], ['--no-a', '-a'], ['--no-'], ['--no-o']],
    3: [[], ['-o', 'v', '--m', 'w'], ['-o=v', '--m=w', 'p', '-t', '--o'], ['--m', 'w'], ['-o', 'v'], ['-t', '-o', 'v', '--m=1', '--m=2', 'x', 'y', 'z'], ['--', '-o', 'v'], ['-ot', 'v', '--m=w'],
        ['-to', 'v', '--m=w'], ['-oo', 'v', '--m=w']],
    4: [[], ['p'], ['p', 'q'], ['p', '-x'], ['-x', 'p'], ['--', 'p', 'q'], ['-p', 'v', 'p'], ['p', '--']],
    9: [[], ['-x', 'a', '-p', 'v', 'b', '--m', 'c', 'd'], ['--', '--m'], ['a', 'b', 'c', 'd']],
    10: [[], ['--b'], ['--b', '--b'], ['-b'], ['b']],
    11: [[], ['--o', 'v'], ['--o=v', '--m=a'], ['--m', 'a']],
    12: [[], ['-x'], ['-xx', 'a', 'b'], ['-p', 'v', 'a', 'b', 'c']],
    13: [['--a'], ['--ab', 'v'], ['--abc', 'p'], ['--a', 'p', '--ab=v'], ['--abcd']],
}
ENV_LINES = {
    5: [({}, []), ({0: 'val'}, []), ({0: ''}, []), ({0: '--a=b'}, []), ({0: '-5'}, []), ({0: '-'}, []), ({0: 'v'}, ['--o', 'w']), ({1: 'a;b'}, []), ({1: 'a;'}, []), ({1: ';a'}, []), ({1: 'a;;b'}, []),
        ({1: '-x;y'}, []), ({1: 'a'}, ['--m=z']), ({2: 'TRUE'}, []), ({2: 'off'}, []), ({2: 'maybe'}, []), ({2: 'yes'}, ['-t']), ({2: ''}, []), ({0: 'x', 1: 'y', 2: '1'}, [])],
    6: [({}, []), ({0: 'e'}, []), ({0: ''}, []), ({1: 'e;f'}, []), ({2: 'no'}, []), ({2: 'No'}, ['--t']), ({0: 'e'}, ['--o=c'])],
    7: [({}, []), ({0: 'e'}, []), ({0: ''}, []), ({1: 'y'}, ['--o', 'v']), ({1: 'nope'}, ['--o', 'v'])],
    8: [({}, []), ({0: 'a;b;c'}, []), ({0: ''}, []), ({0: ';'}, [])],
}


def rt_entry(decl, toks, prop, env=None, second=None, vin=()):
    """corpus entry whose shape is passed to the native binaries at run time (one native build per DECL/PROP)"""
    rt = {'V_NTOK': str(len(toks))}
    for i, t in enumerate(toks):
        rt['V_T%d' % i] = t
    for k, v in (env or {}).items():
        rt['V_ENV%d' % k] = v
    if second is not None:
        rt['V_NTOK_B'] = str(len(second))
        for i, t in enumerate(second):
            rt['V_U%d' % i] = t
    # C03 leaves open whether "a;" has a trailing empty element (see harness/C03/plan.py): same setting as its queries
    return (['-DDECL=%d' % decl, '-DPROP_%s' % prop] + (['-DENV_TRAILING_SEP_EITHER'] if prop == 'C03' else []), list(vin), rt)


def base_corpus(prop, decls=None, envdecls=None):
    out = []
    for d, lines in CORPUS_LINES.items():
        if decls is not None and d not in decls:
            continue
        for toks in lines:
            if len(toks) > 4 or any(len(t) > 6 for t in toks):
                continue
            out.append(rt_entry(d, toks, prop))
    for d, lines in ENV_LINES.items():
        if envdecls is not None and d not in envdecls:
            continue
        for env, toks in lines:
            out.append(rt_entry(d, toks, prop, env=env))
    return out


INTERESTING = [ord(c) for c in '-=xyapoqmbt-z; 1']


LIBRARY = ['-x', '-xy', '-p=v', '--o=v', '--a', '--no-a', '-', '---x', '=x', 'v', '-xz', '-yxy', '--m', '-q', '--zz', '-a', '-aa', '-t', '-o', '--b', 'TRUE', 'off', 'a;b', '--no-b', '-x=1']


def profile_vins(templates, k=5, seed=1):
    """concrete instantiations of the holes: each library token is laid over the holes of every template (truncated; '*' holes
    beyond its end become NUL, '?' holes become 'a'), so that the profile runs take the parser down its different paths"""
    holes = sum(t.count('?') + t.count('*') for t in templates)
    if not holes:
        return [[]]
    out = []
    for i, tok in enumerate(LIBRARY):
        v = []
        for ti, t in enumerate(templates):
            src = LIBRARY[(i + 3 * ti) % len(LIBRARY)]
            # align the library token with the template: skip the template's fixed prefix
            j = 0
            for ch in t:
                if ch in '?*':
                    c = src[j] if j < len(src) else None
                    v.append(ord(c) if c is not None else (0 if ch == '*' else ord('a')))
                j += 1
        if v not in out:
            out.append(v)
    return out[:max(k, 14)]


W_OK = 'parse succeeds'
W_ERR = 'parse raises the user-input error'


def Q(prop, decl, toks, env=None, wit=(W_OK, W_ERR), extra=(), second=None, est_gb=4, timeout=900, k=6, name=None, more_profile=()):
    """one query: declaration table `decl`, token templates, optional environment templates"""
    env = env or {}
    tpl = list(toks) + [env[k_] for k_ in sorted(env)] + list(second or [])
    nm = name or ('d%d_' % decl + '_'.join(t if t else 'E' for t in toks) + ''.join('_env%d-%s' % (k_, v) for k_, v in sorted(env.items()))
                  + ('_then_' + '_'.join(second) if second is not None else ''))
    nm = nm.replace('?', 'S').replace('*', 'V')
    prof = profile_vins(tpl, k=k) + [list(v) for v in more_profile]
    return Query(nm, shape_defs(decl, toks, prop, env=env, extra=extra, second=second), list(wit), unwind=2, est_gb=est_gb, timeout=timeout,
                 profile=prof, sample={'declaration_table': decl, 'token_templates': toks, 'env_templates': env,
                                       'first_vector_templates': second,
                                       'legend': "'?' = any byte 1..255, '*' = any byte 0..255 (NUL ends the token early: a run of * is every string up to that length)"})


BOUNDS_NOTE = {'token_templates': "each query fixes the number of tokens and a template per token; '?'/'*' positions are symbolic bytes, so one query covers every argument vector matching the templates",
               'model_capacities': CAPS,
               'declarations': 'tables in harness/parser/decls_table.h (single-character long names so that short symbolic tokens can spell them)'}
OUTSIDE = ['argument vectors with more tokens / longer tokens than the templates', 'declarations other than the tables used', 'long names longer than one character (except in the directed --no-<name> templates)',
           'allocation failure', 'undefined behaviour that exists only in the g++ build (counterexamples are replayed there, but absence is shown on the clang -O1 IR)']
ASSUME = ['exception message formatting is skipped (hook NITRO_VERIF_NO_MESSAGES); message text is not part of these properties',
          'cleanup-only landing pads (destructors of locals while an exception propagates) are skipped in the encoding (ir2c --leak-on-unwind): no parser state depends on them',
          'getenv is a stub owned by the harness; the reference specification spec/cli_spec.h is the oracle']
