/* cb_parser.c -- harness main for the parser properties (C01-C04, C11, C12, C14).
 *
 * shape (-D):  DECL=<k>            declaration table (decls_table.h)
 *              NTOK=<n>, T0..T3    token templates: string literals in which every '?' is one symbolic byte (1..255)
 *              ENV0..ENV4          template of the value of the environment variable bound to entry k (undefined = unset)
 *              NTOK_B, U0..U2      second argument vector (C14: parsed first on the same parser object)
 *              PROP_C01 ...        which projection of "implementation == reference specification" is asserted
 * The reference specification is spec/cli_spec.h.
 */
#include "vharness.h"
#include "all.h"
#include "cli_spec.h"
#include "decls_table.h"
#ifndef DECL
#define DECL 1
#endif
#define D (DECLS[DECL])

#ifndef NTOK
#define NTOK 0
#endif
#ifndef T0
#define T0 ""
#endif
#ifndef T1
#define T1 ""
#endif
#ifndef T2
#define T2 ""
#endif
#ifndef T3
#define T3 ""
#endif
#ifndef NTOK_B
#define NTOK_B 0
#endif
#ifndef U0
#define U0 ""
#endif
#ifndef U1
#define U1 ""
#endif
#ifndef U2
#define U2 ""
#endif

/* instantiate a template: '?' -> symbolic byte 1..255, '*' -> symbolic byte 0..255 (a NUL ends the token early, so
 * a run of '*' stands for every string up to that length) */
static void inst(char* dst, const char* tpl, unsigned n)
{
    for (unsigned i = 0; i < n; ++i) dst[i] = tpl[i] == '?' ? (char)in_ch() : tpl[i] == '*' ? (char)in_u8() : tpl[i];
    dst[n] = 0;
}
#ifdef NATIVE
/* native builds take the shape at run time (V_T0=..., V_NTOK=..., V_ENV0=...), defaulting to the -D shape */
#define TOKBUF(name, tpl, key) char name[64]; { const char* t_ = v_env(key); if (!t_) t_ = tpl; inst(name, t_, (unsigned)strlen(t_)); }
static unsigned rt_uint(const char* key, unsigned dflt) { const char* t_ = v_env(key); return t_ ? (unsigned)atoi(t_) : dflt; }
#define ENVBUF(k, key) char ev##k[64]; { const char* t_ = v_env(key); if (!t_) t_ = ENVTPL##k; if (t_) { inst(ev##k, t_, (unsigned)strlen(t_)); env_val[k] = ev##k; } }
#else
#define TOKBUF(name, tpl, key) char name[sizeof(tpl)]; inst(name, tpl, sizeof(tpl) - 1)
#define rt_uint(key, dflt) (dflt)
#endif

/* environment stub: the harness owns the environment */
static const char* env_val[MAX_ENT];
u8* ir2c_getenv(u8* name)
{
    for (unsigned k = 0; k < D.n; ++k) {
        const char* en = D.e[k].env;
        if (!en[0]) continue;
        unsigned i = 0; while (en[i] && en[i] == (char)name[i]) ++i;
        if (en[i] == 0 && name[i] == 0) return (u8*)env_val[k];
    }
    return 0;
}

/* copy the result kept on the C++ side into the harness' own record, through scalar accessors only */
static void fetch_str(struct res_str* d, u32 slot, u32 ent, u32 which)
{
    d->len = res_str_len(slot, ent, which);
    for (u32 i = 0; i < RES_STR; ++i) d->s[i] = i < d->len ? (char)res_str_byte(slot, ent, which, i) : 0;
}
static void fetch(struct parse_result* r, u32 slot)
{
    memset(r, 0, sizeof *r);
    r->status = (int)res_status(slot);
    if (r->status != 0) return;
    r->npos = res_npos(slot);
    for (u32 j = 0; j < r->npos && j < MAX_VALS; ++j) fetch_str(&r->pos[j], slot, 0, 100 + j);
    for (u32 k = 0; k < D.n; ++k) {
        r->e[k].given = (int)res_given(slot, k); r->e[k].provided = res_provided(slot, k); r->e[k].present = res_present(slot, k); r->e[k].count = res_count(slot, k);
        if (r->e[k].present) fetch_str(&r->e[k].value, slot, k, 0);
        for (u32 j = 0; j < r->e[k].count && j < MAX_VALS; ++j) fetch_str(&r->e[k].vals[j], slot, k, 1 + j);
    }
}
static int str_eq(const struct res_str* a, const char* b, unsigned bl)
{
    if (a->len != bl) return 0;
    for (unsigned i = 0; i < bl && i < RES_STR; ++i) if (a->s[i] != b[i]) return 0;
    return 1;
}

static void obs_result(const char* tag, const struct parse_result* r)
{
    OBS("%s status=%d npos=%u\n", tag, r->status, r->npos);
    if (r->status != 0) return;
    for (unsigned k = 0; k < D.n; ++k) {
        OBS(" e%u given=%d provided=%u present=%u count=%u\n", k, r->e[k].given, r->e[k].provided, r->e[k].present, r->e[k].count);
        if (r->e[k].present) OBS_STR("  value", r->e[k].value.s, r->e[k].value.len < RES_STR ? r->e[k].value.len : RES_STR);
        for (unsigned j = 0; j < r->e[k].count && j < MAX_VALS; ++j) OBS_STR("  val", r->e[k].vals[j].s, r->e[k].vals[j].len < RES_STR ? r->e[k].vals[j].len : RES_STR);
    }
    for (unsigned j = 0; j < r->npos && j < MAX_VALS; ++j) OBS_STR(" pos", r->pos[j].s, r->pos[j].len < RES_STR ? r->pos[j].len : RES_STR);
}

/* equality of two implementation results (C14) */
static int res_same(const struct parse_result* a, const struct parse_result* b)
{
    if (a->status != b->status) return 0;
    if (a->status != 0) return 1;
    if (a->npos != b->npos) return 0;
    for (unsigned j = 0; j < a->npos && j < MAX_VALS; ++j) if (!str_eq(&a->pos[j], b->pos[j].s, b->pos[j].len)) return 0;
    for (unsigned k = 0; k < D.n; ++k) {
        const struct res_ent* x = &a->e[k]; const struct res_ent* y = &b->e[k];
        if (x->given != y->given || x->provided != y->provided || x->present != y->present || x->count != y->count) return 0;
        if (x->present && !str_eq(&x->value, y->value.s, y->value.len)) return 0;
        for (unsigned j = 0; j < x->count && j < MAX_VALS; ++j) if (!str_eq(&x->vals[j], y->vals[j].s, y->vals[j].len)) return 0;
    }
    return 1;
}

int main(void)
{
    ir2c_global_ctors();
    TOKBUF(t0, T0, "T0"); TOKBUF(t1, T1, "T1"); TOKBUF(t2, T2, "T2"); TOKBUF(t3, T3, "T3");
    const char* argv[5] = { "app", t0, t1, t2, t3 };
    const unsigned ntok = rt_uint("NTOK", NTOK), ntok_b = rt_uint("NTOK_B", NTOK_B);
#ifdef NATIVE
#ifdef ENV0
#define ENVTPL0 ENV0
#else
#define ENVTPL0 0
#endif
#ifdef ENV1
#define ENVTPL1 ENV1
#else
#define ENVTPL1 0
#endif
#ifdef ENV2
#define ENVTPL2 ENV2
#else
#define ENVTPL2 0
#endif
#ifdef ENV3
#define ENVTPL3 ENV3
#else
#define ENVTPL3 0
#endif
#ifdef ENV4
#define ENVTPL4 ENV4
#else
#define ENVTPL4 0
#endif
    ENVBUF(0, "ENV0") ENVBUF(1, "ENV1") ENVBUF(2, "ENV2") ENVBUF(3, "ENV3") ENVBUF(4, "ENV4")
#else
#ifdef ENV0
    TOKBUF(ev0, ENV0, ""); env_val[0] = ev0;
#endif
#ifdef ENV1
    TOKBUF(ev1, ENV1, ""); env_val[1] = ev1;
#endif
#ifdef ENV2
    TOKBUF(ev2, ENV2, ""); env_val[2] = ev2;
#endif
#ifdef ENV3
    TOKBUF(ev3, ENV3, ""); env_val[3] = ev3;
#endif
#ifdef ENV4
    TOKBUF(ev4, ENV4, ""); env_val[4] = ev4;
#endif
#endif
#ifdef EXTRA_ASSUME
    EXTRA_ASSUME;
#endif

#if defined(PROP_C12_INDEX)
    /* arguments::get(int) / operator[]: index -k addresses the k-th positional from the end */
    {
        struct spec_result sp0; spec_parse(&D, ntok, argv + 1, env_val, &sp0);
        ASSUME(sp0.status == SPEC_OK);
        int n = (int)sp0.npos;
        int idx = (int)in_range(0, 2 * MAX_VALS + 2) - (MAX_VALS + 1);
        ASSUME(idx >= -n - 1 && idx <= n);
        u32 br = in_range(0, 1);
        struct res_str out; memset(&out, 0, sizeof out);
        u32 st = k_positional_index(DECL, ntok + 1, (u8**)argv, (u32)idx, br);
        if (st == 0) fetch_str(&out, 0, 0, 200);
        CHECK(st != 6, "C12 index: the parse itself succeeds (harness sanity)");
        if (idx >= 0 && idx < n) CHECK(st == 0 && str_eq(&out, sp0.pos[idx], sp0.plen[idx]), "C12: index i addresses the i-th positional");
        else if (idx < 0 && idx >= -n) CHECK(st == 0 && str_eq(&out, sp0.pos[n + idx], sp0.plen[n + idx]), "C12: index -k addresses the k-th positional from the end");
        else CHECK(st != 0, "C12: an index outside [-n, n) never hands out a string");
        WITNESS_AT(st == 0 && idx < 0, "negative index answered");
        WITNESS_AT(st == 0 && idx >= 0, "non-negative index answered");
        WITNESS_AT(st != 0, "out-of-range index raised");
        OBS("idx st=%u\n", st); if (st == 0) OBS_STR("out", out.s, out.len < RES_STR ? out.len : RES_STR);
        HARNESS_END();
    }
#endif

    struct parse_result r; memset(&r, 0, sizeof r);
#if defined(PROP_C14)
    /* parse U (first vector) then T (second vector) on ONE parser; compare the second outcome with a fresh parser */
    TOKBUF(u0, U0, "U0"); TOKBUF(u1, U1, "U1"); TOKBUF(u2, U2, "U2");
    const char* argvb[4] = { "app", u0, u1, u2 };
    struct parse_result r1, r2; memset(&r1, 0, sizeof r1); memset(&r2, 0, sizeof r2);
    k_parse_twice(DECL, ntok_b + 1, (u8**)argvb, ntok + 1, (u8**)argv);
    fetch(&r1, 1); fetch(&r2, 2);
    k_parse(DECL, ntok + 1, (u8**)argv);
    fetch(&r, 0);
    CHECK(r.status != 6 && r2.status != 6, "harness sanity: declaration succeeds");
    CHECK(res_same(&r2, &r), "C14: the second parse on one parser object gives what a fresh identical parser gives");
    WITNESS_AT(r1.status == 0 && r2.status == 0, "both parses succeed");
    WITNESS_AT(r1.status == 1 && r2.status == 0, "second parse succeeds after a failed first parse");
    WITNESS_AT(r1.status == 0 && r2.status == 1, "second parse fails after a successful first parse");
    obs_result("first", &r1); obs_result("second", &r2); obs_result("fresh", &r);
    HARNESS_END();
#else
    k_parse(DECL, ntok + 1, (u8**)argv);
    fetch(&r, 0);
    struct spec_result sp; spec_parse(&D, ntok, argv + 1, env_val, &sp);
    obs_result("impl", &r);
    OBS("spec status=%d why=%d npos=%u\n", sp.status, sp.why, sp.npos);

    CHECK(r.status != 6 && r.status != 5, "harness sanity: declaration succeeds and results are readable");
    int both_ok = r.status == 0 && sp.status == SPEC_OK;
    int eq_tog = 1, eq_pos = 1, eq_optp = 1, eq_optv = 1, eq_mcnt = 1, eq_mval = 1, eq_prov = 1;
    if (both_ok) {
        if (r.npos != sp.npos) eq_pos = 0;
        for (unsigned j = 0; eq_pos && j < sp.npos && j < MAX_VALS; ++j) if (!str_eq(&r.pos[j], sp.pos[j], sp.plen[j])) eq_pos = 0;
        for (unsigned k = 0; k < D.n; ++k) {
            const struct res_ent* x = &r.e[k]; const struct spec_ent* y = &sp.e[k];
            if (D.e[k].kind == K_TOGGLE && x->given != y->count) eq_tog = 0;
            if (D.e[k].kind == K_OPTION) {
                if ((int)x->present != y->present) eq_optp = 0;
                else if (y->present && !str_eq(&x->value, y->value, y->vlen)) eq_optv = 0;
            }
            if (D.e[k].kind == K_MULTI) {
                unsigned want = y->nvals;
#ifdef ENV_TRAILING_SEP_EITHER
                /* "a;" : the statement says "split at ;" and does not say whether a trailing empty piece is kept */
                if (!y->on_cmdline && y->provided && want > 0 && y->vlens[want - 1] == 0 && x->count + 1 == want) want = x->count;
#endif
                if (x->count != want) eq_mcnt = 0;
                for (unsigned j = 0; eq_mcnt && j < want && j < MAX_VALS; ++j) if (!str_eq(&x->vals[j], y->vals[j], y->vlens[j])) eq_mval = 0;
            }
            if ((int)x->provided != y->provided) eq_prov = 0;
        }
    }
#if defined(PROP_C04) || defined(PROP_ALL)
    CHECK(r.status == 0 || r.status == 1, "C04: parse returns or throws the user-input error; no other exception type escapes");
    CHECK((r.status == 1) == (sp.status == SPEC_USER_ERROR) || (r.status != 0 && r.status != 1), "C04: the user-input error is raised exactly under the documented conditions");
#endif
#if defined(PROP_C01) || defined(PROP_ALL)
    CHECK(r.status != 0 || sp.status == SPEC_OK, "C01: a token or bundle letter that matches nothing declared makes parsing fail instead of being dropped");
    CHECK(!both_ok || eq_tog, "C01: every declared toggle letter/name occurrence was counted");
    CHECK(!both_ok || eq_pos, "C01: positionals are reported verbatim");
    CHECK(!both_ok || (eq_optp && eq_mcnt), "C01: value-taking options consumed exactly the tokens that name them");
#endif
#if defined(PROP_C02) || defined(PROP_ALL)
    CHECK(sp.status != SPEC_OK || r.status == 0, "C02: every command line that spells an assignment parses");
    CHECK(!both_ok || (eq_optp && eq_optv), "C02: option values arrive byte for byte");
    CHECK(!both_ok || (eq_mcnt && eq_mval), "C02: multi-option values arrive byte for byte, in command-line order");
    CHECK(!both_ok || eq_pos, "C02: positionals arrive verbatim, in order");
    CHECK(!both_ok || eq_tog, "C02: toggle counts equal the number of occurrences");
    CHECK(!both_ok || eq_prov, "C02: provided() is true exactly for the options given");
#endif
#if defined(PROP_C03) || defined(PROP_ALL)
    CHECK(r.status == 0 || r.status == 1, "C03: an environment value never makes parse leave with another exception type");
    CHECK((r.status == 0) == (sp.status == SPEC_OK) || (r.status != 0 && r.status != 1), "C03: parsing fails exactly when a required option has no source (or an input is bad)");
    CHECK(!both_ok || (eq_optp && eq_optv), "C03: option value comes verbatim from command line, else environment, else default");
    CHECK(!both_ok || (eq_mcnt && eq_mval), "C03: multi-option values come from command line, else environment split at ';', else default");
    CHECK(!both_ok || eq_tog, "C03: toggle count comes from command line, else environment word, else default");
    CHECK(!both_ok || eq_prov, "C03: provided() is true exactly when the value came from the command line or the environment");
#endif
#if defined(PROP_C11) || defined(PROP_ALL)
    CHECK(r.status != 0 || sp.status == SPEC_OK, "C11: --no-<name> on a non-reversible toggle, both polarities, =value on a toggle and unknown env words are rejected");
    CHECK(sp.status != SPEC_OK || r.status == 0, "C11: every well-formed toggle spelling is accepted");
    CHECK(!both_ok || eq_tog, "C11: the count equals long occurrences + letter occurrences, else env word, else default");
    CHECK(!both_ok || eq_prov, "C11: provided() for toggles");
#endif
#if defined(PROP_C12) || defined(PROP_ALL)
    CHECK(r.status != 0 || sp.status == SPEC_OK, "C12: parsing succeeds only if the number of positionals does not exceed the accepted number");
    CHECK(sp.status != SPEC_OK || r.status == 0, "C12: tokens after the first -- (and after the first positional in greedy mode) are positionals whatever they look like");
    CHECK(!both_ok || eq_pos, "C12: positionals verbatim and in order");
#endif
    WITNESS_AT(r.status == 0, "parse succeeds");
    WITNESS_AT(r.status == 1, "parse raises the user-input error");
#ifdef WIT_TWO_TOGGLES
    WITNESS_AT(r.status == 0 && r.e[WIT_TA].given == 1 && r.e[WIT_TB].given == 1, "a bundle of two declared toggles counts both");
#endif
#ifdef WIT_POS
    WITNESS_AT(r.status == 0 && r.npos >= 1, "a positional is reported");
#endif
#ifdef WIT_OPT
    WITNESS_AT(r.status == 0 && r.e[WIT_OPT].present && r.e[WIT_OPT].provided, "an option receives a value");
#endif
#ifdef WIT_ENVSRC
    WITNESS_AT(r.status == 0 && r.e[WIT_ENVSRC].provided, "value taken from the environment");
#endif
    HARNESS_END();
#endif
}
