/* decl.h -- declaration tables and result records shared by the C++ harness (which builds a real
 * nitro::options::parser from a table) and the C harness main / reference specification. */
#ifndef VERIF_DECL_H
#define VERIF_DECL_H
#ifdef __cplusplus
extern "C" {
#endif
enum { K_OPTION = 1, K_MULTI = 2, K_TOGGLE = 3 };
#define MAX_ENT 5
#define MAX_VALS 3          /* values recorded per multi-option / positionals recorded */
#define RES_STR 8           /* bytes recorded per string (longer ones are truncated; length is exact) */
#define POS_UNLIMITED 0xffffffffu
struct decl_ent
{
    unsigned kind;           /* K_* */
    const char* name;        /* long name */
    const char* letter;      /* "" = none, else one character */
    unsigned reversible;     /* toggle: allow_reverse() */
    unsigned has_default;    /* option: default_value(dflt); multi: default_value({dflt}) ; toggle: default_value(tdefault) */
    const char* dflt;
    int tdefault;
    const char* env;         /* "" = not bound */
    unsigned optional;       /* option/multi: optional() */
    unsigned group;          /* 0 = default group, 1 = second group "g2" */
};
struct decl
{
    unsigned n;
    struct decl_ent e[MAX_ENT];
    unsigned limit;          /* accept_positionals(limit); 0 = never called */
    unsigned greedy;
};
struct res_str { unsigned len; char s[RES_STR]; };
struct res_ent
{
    int given;               /* toggle: arguments::given */
    unsigned provided;       /* arguments::provided(name) */
    unsigned present;        /* option: arguments::get did not raise */
    struct res_str value;    /* option value */
    unsigned count;          /* multi: arguments::count */
    struct res_str vals[MAX_VALS];
};
struct parse_result
{
    int status;              /* 0 ok, 1 parsing_error (user-input error), 2 parser_error (developer error), 3 other std::exception, 4 anything else, 5 exception while reading the result */
    struct res_ent e[MAX_ENT];
    unsigned npos;
    struct res_str pos[MAX_VALS];
};
#ifdef __cplusplus
}
#endif
#endif
