// harness: build a real nitro::options::parser from a declaration table, parse, record every observable
#include "decl.h"
#include <nitro/options/parser.hpp>
#include <memory>
#include <string>

extern "C" {
int k_parse(const struct decl* d, int argc, const char* const* argv, struct parse_result* r);
// parse argv1 then argv2 on ONE parser object; r1/r2 receive both outcomes
int k_parse_twice(const struct decl* d, int argc1, const char* const* argv1, int argc2, const char* const* argv2,
                  struct parse_result* r1, struct parse_result* r2);
// arguments::get(int) / operator[] on a successful parse: 0 = returned (out filled), 1.. = exception class
int k_positional_index(const struct decl* d, int argc, const char* const* argv, int index, int use_brackets,
                       struct res_str* out);
// option::as<int>() / multi_option as<int>(i) after a successful parse of "--<name> <text>"
int k_parse_as_int(const struct decl* d, int argc, const char* const* argv, unsigned ent, unsigned idx, int* out);
}

namespace
{
void put(struct res_str* d, const std::string& s)
{
    d->len = static_cast<unsigned>(s.size());
    for (std::size_t i = 0; i < s.size() && i < RES_STR; ++i)
        d->s[i] = s[i];
}

void declare(nitro::options::parser& p, const struct decl* d)
{
    for (unsigned i = 0; i < d->n; ++i)
    {
        const struct decl_ent& e = d->e[i];
        nitro::options::group& g = e.group ? p.group("g2") : p.group();
        if (e.kind == K_OPTION)
        {
            auto& o = g.option(e.name);
            if (e.letter[0])
                o.short_name(e.letter);
            if (e.has_default)
                o.default_value(e.dflt);
            if (e.env[0])
                o.env(e.env);
            if (e.optional)
                o.optional();
        }
        else if (e.kind == K_MULTI)
        {
            auto& o = g.multi_option(e.name);
            if (e.letter[0])
                o.short_name(e.letter);
            if (e.has_default)
                o.default_value({ std::string(e.dflt) });
            if (e.env[0])
                o.env(e.env);
            if (e.optional)
                o.optional();
        }
        else
        {
            auto& o = g.toggle(e.name);
            if (e.letter[0])
                o.short_name(e.letter);
            if (e.reversible)
                o.allow_reverse();
            if (e.has_default)
                o.default_value(e.tdefault);
            if (e.env[0])
                o.env(e.env);
        }
    }
    if (d->limit)
        p.accept_positionals(d->limit == POS_UNLIMITED ? std::numeric_limits<std::size_t>::max() : d->limit);
    if (d->greedy)
        p.greedy_postionals();
}

void record(const struct decl* d, const nitro::options::arguments& a, struct parse_result* r)
{
    for (unsigned i = 0; i < d->n; ++i)
    {
        const struct decl_ent& e = d->e[i];
        struct res_ent& o = r->e[i];
        o.provided = a.provided(e.name) ? 1 : 0;
        if (e.kind == K_TOGGLE)
        {
            o.given = a.given(e.name);
        }
        else if (e.kind == K_OPTION)
        {
            try
            {
                const std::string& v = a.get(e.name);
                o.present = 1;
                put(&o.value, v);
            }
            catch (nitro::except::exception&)
            {
                o.present = 0; // reading an absent option raises (lang::optional)
            }
        }
        else
        {
            o.count = static_cast<unsigned>(a.count(e.name));
            for (unsigned k = 0; k < o.count && k < MAX_VALS; ++k)
                put(&o.vals[k], a.get(e.name, k));
        }
    }
    r->npos = static_cast<unsigned>(a.positionals().size());
    for (unsigned k = 0; k < r->npos && k < MAX_VALS; ++k)
        put(&r->pos[k], a.positionals()[k]);
}

int parse_into(nitro::options::parser& p, const struct decl* d, int argc, const char* const* argv,
               struct parse_result* r)
{
    try
    {
        auto a = p.parse(argc, argv);
        r->status = 0;
        try
        {
            record(d, a, r);
        }
        catch (...)
        {
            r->status = 5;
        }
    }
    catch (nitro::options::parsing_error&)
    {
        r->status = 1;
    }
    catch (nitro::options::parser_error&)
    {
        r->status = 2;
    }
    catch (std::exception&)
    {
        r->status = 3;
    }
    catch (...)
    {
        r->status = 4;
    }
    return r->status;
}
} // namespace

int k_parse(const struct decl* d, int argc, const char* const* argv, struct parse_result* r)
{
    try
    {
        nitro::options::parser p("app");
        declare(p, d);
        return parse_into(p, d, argc, argv, r);
    }
    catch (...)
    {
        r->status = 6; // declaration itself failed: harness error
        return 6;
    }
}

int k_parse_twice(const struct decl* d, int argc1, const char* const* argv1, int argc2, const char* const* argv2,
                  struct parse_result* r1, struct parse_result* r2)
{
    try
    {
        nitro::options::parser p("app");
        declare(p, d);
        parse_into(p, d, argc1, argv1, r1);
        return parse_into(p, d, argc2, argv2, r2);
    }
    catch (...)
    {
        r2->status = 6;
        return 6;
    }
}

int k_positional_index(const struct decl* d, int argc, const char* const* argv, int index, int use_brackets,
                       struct res_str* out)
{
    try
    {
        nitro::options::parser p("app");
        declare(p, d);
        auto a = p.parse(argc, argv);
        try
        {
            const std::string& s = use_brackets ? a[index] : a.get(index);
            put(out, s);
            return 0;
        }
        catch (std::exception&)
        {
            return 1;
        }
        catch (...)
        {
            return 2;
        }
    }
    catch (...)
    {
        return 6;
    }
}

int k_parse_as_int(const struct decl* d, int argc, const char* const* argv, unsigned ent, unsigned idx, int* out)
{
    try
    {
        nitro::options::parser p("app");
        declare(p, d);
        auto a = p.parse(argc, argv);
        if (d->e[ent].kind == K_OPTION)
            *out = a.as<int>(d->e[ent].name);
        else
            *out = a.as<int>(d->e[ent].name, idx);
        return 0;
    }
    catch (...)
    {
        return 6;
    }
}
