// harness: build a real nitro::options::parser from a declaration table, parse, record every observable
#include "decl.h"
#include <nitro/options/parser.hpp>
#include <memory>
#include <string>

#include "decls_table.h"

extern "C" {
// Only scalars and byte pointers cross the C / C++ boundary (CBMC was measured to answer imprecisely when a struct written through
// the generated struct type is read through the harness' own struct type).  Results are kept here and read through accessors.
// slot: 0 = the parse of interest, 1 / 2 = first / second parse on one parser object (C14)
int k_parse(unsigned decl, int argc, const char* const* argv);
int k_parse_twice(unsigned decl, int argc1, const char* const* argv1, int argc2, const char* const* argv2);
int k_positional_index(unsigned decl, int argc, const char* const* argv, int index, int use_brackets);
int res_status(unsigned slot);
unsigned res_npos(unsigned slot);
int res_given(unsigned slot, unsigned ent);
unsigned res_provided(unsigned slot, unsigned ent);
unsigned res_present(unsigned slot, unsigned ent);
unsigned res_count(unsigned slot, unsigned ent);
// which: 0 = option value of ent, 1 + j = j-th multi-option value of ent, 100 + j = j-th positional, 200 = string handed out by k_positional_index
unsigned res_str_len(unsigned slot, unsigned ent, unsigned which);
unsigned res_str_byte(unsigned slot, unsigned ent, unsigned which, unsigned i);
}

static struct parse_result g_res[3];
static struct res_str g_idx_str;

static const struct res_str* pick(unsigned slot, unsigned ent, unsigned which)
{
    if (which == 200)
        return &g_idx_str;
    if (which >= 100)
        return &g_res[slot].pos[which - 100];
    if (which == 0)
        return &g_res[slot].e[ent].value;
    return &g_res[slot].e[ent].vals[which - 1];
}
int res_status(unsigned slot) { return g_res[slot].status; }
unsigned res_npos(unsigned slot) { return g_res[slot].npos; }
int res_given(unsigned slot, unsigned ent) { return g_res[slot].e[ent].given; }
unsigned res_provided(unsigned slot, unsigned ent) { return g_res[slot].e[ent].provided; }
unsigned res_present(unsigned slot, unsigned ent) { return g_res[slot].e[ent].present; }
unsigned res_count(unsigned slot, unsigned ent) { return g_res[slot].e[ent].count; }
unsigned res_str_len(unsigned slot, unsigned ent, unsigned which) { return pick(slot, ent, which)->len; }
unsigned res_str_byte(unsigned slot, unsigned ent, unsigned which, unsigned i) { return static_cast<unsigned char>(pick(slot, ent, which)->s[i]); }

namespace
{
void put(struct res_str* d, const std::string& s)
{
    d->len = static_cast<unsigned>(s.size());
    for (std::size_t i = 0; i < s.size() && i < RES_STR; ++i)
        d->s[i] = s[i];
}

void declare(nitro::options::parser& p, const struct decl* d)
{
    for (unsigned i = 0; i < d->n; ++i)
    {
        const struct decl_ent& e = d->e[i];
        nitro::options::group& g = e.group ? p.group("g2") : p.group();
        if (e.kind == K_OPTION)
        {
            auto& o = g.option(e.name);
            if (e.letter[0])
                o.short_name(e.letter);
            if (e.has_default)
                o.default_value(e.dflt);
            if (e.env[0])
                o.env(e.env);
            if (e.optional)
                o.optional();
        }
        else if (e.kind == K_MULTI)
        {
            auto& o = g.multi_option(e.name);
            if (e.letter[0])
                o.short_name(e.letter);
            if (e.has_default)
                o.default_value({ std::string(e.dflt) });
            if (e.env[0])
                o.env(e.env);
            if (e.optional)
                o.optional();
        }
        else
        {
            auto& o = g.toggle(e.name);
            if (e.letter[0])
                o.short_name(e.letter);
            if (e.reversible)
                o.allow_reverse();
            if (e.has_default)
                o.default_value(e.tdefault);
            if (e.env[0])
                o.env(e.env);
        }
    }
    if (d->limit)
        p.accept_positionals(d->limit == POS_UNLIMITED ? std::numeric_limits<std::size_t>::max() : d->limit);
    if (d->greedy)
        p.greedy_postionals();
}

void record(const struct decl* d, const nitro::options::arguments& a, struct parse_result* r)
{
    for (unsigned i = 0; i < d->n; ++i)
    {
        const struct decl_ent& e = d->e[i];
        struct res_ent& o = r->e[i];
        o.provided = a.provided(e.name) ? 1 : 0;
        if (e.kind == K_TOGGLE)
        {
            o.given = a.given(e.name);
        }
        else if (e.kind == K_OPTION)
        {
            try
            {
                const std::string& v = a.get(e.name);
                o.present = 1;
                put(&o.value, v);
            }
            catch (nitro::except::exception&)
            {
                o.present = 0; // reading an absent option raises (lang::optional)
            }
        }
        else
        {
            o.count = static_cast<unsigned>(a.count(e.name));
            for (unsigned k = 0; k < o.count && k < MAX_VALS; ++k)
                put(&o.vals[k], a.get(e.name, k));
        }
    }
    r->npos = static_cast<unsigned>(a.positionals().size());
    for (unsigned k = 0; k < r->npos && k < MAX_VALS; ++k)
        put(&r->pos[k], a.positionals()[k]);
}

int parse_into(nitro::options::parser& p, const struct decl* d, int argc, const char* const* argv,
               struct parse_result* r)
{
    try
    {
        auto a = p.parse(argc, argv);
        r->status = 0;
        try
        {
            record(d, a, r);
        }
        catch (...)
        {
            r->status = 5;
        }
    }
    catch (nitro::options::parsing_error&)
    {
        r->status = 1;
    }
    catch (nitro::options::parser_error&)
    {
        r->status = 2;
    }
    catch (std::exception&)
    {
        r->status = 3;
    }
    catch (...)
    {
        r->status = 4;
    }
    return r->status;
}
} // namespace

int k_parse(unsigned decl, int argc, const char* const* argv)
{
    const struct decl* d = &DECLS[decl];
    struct parse_result* r = &g_res[0];
    try
    {
        nitro::options::parser p("app");
        declare(p, d);
        return parse_into(p, d, argc, argv, r);
    }
    catch (...)
    {
        r->status = 6; // declaration itself failed: harness error
        return 6;
    }
}

int k_parse_twice(unsigned decl, int argc1, const char* const* argv1, int argc2, const char* const* argv2)
{
    const struct decl* d = &DECLS[decl];
    try
    {
        nitro::options::parser p("app");
        declare(p, d);
        parse_into(p, d, argc1, argv1, &g_res[1]);
        return parse_into(p, d, argc2, argv2, &g_res[2]);
    }
    catch (...)
    {
        g_res[2].status = 6;
        return 6;
    }
}

int k_positional_index(unsigned decl, int argc, const char* const* argv, int index, int use_brackets)
{
    const struct decl* d = &DECLS[decl];
    try
    {
        nitro::options::parser p("app");
        declare(p, d);
        auto a = p.parse(argc, argv);
        try
        {
            const std::string& s = use_brackets ? a[index] : a.get(index);
            put(&g_idx_str, s);
            return 0;
        }
        catch (std::exception&)
        {
            return 1;
        }
        catch (...)
        {
            return 2;
        }
    }
    catch (...)
    {
        return 6;
    }
}
