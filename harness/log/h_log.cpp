// C05 / C10 harness.  Compiled once per compile-time minimum: -DMINSEV=<trace|debug|info|warn|error|fatal> -DSFX=<suffix>
// The logger is instantiated with a counting formatter, a recording sequence sink (two members) and one of the filter expressions below.
#define NITRO_LOG_MIN_SEVERITY MINSEV
#include <nitro/log/log.hpp>
#include <nitro/log/attribute/message.hpp>
#include <nitro/log/attribute/severity.hpp>
#include <nitro/log/attribute/tag.hpp>
#include <nitro/log/attribute/timestamp.hpp>
#include <nitro/log/filter/and_filter.hpp>
#include <nitro/log/filter/not_filter.hpp>
#include <nitro/log/filter/or_filter.hpp>
#include <nitro/log/filter/severity_filter.hpp>
#include <nitro/log/sink/sequence.hpp>
#include <string>
#include <type_traits>
#include "log_variant.h"

#define CAT2(a, b) a##b
#define CAT(a, b) CAT2(a, b)

extern "C" {
// observation record shared by all TUs (defined in the harness main)
// observation record shared by all TUs (defined in the TU compiled without NO_GLOBAL_DEFS)
extern int g_nfmt, g_nsink_a, g_nsink_b, g_nlazy, g_order_n;
extern int g_order[8];          // 1 = member sink A, 2 = member sink B, in call order
extern int g_sev[4];            // severity delivered with the k-th record (sink A)
extern int g_len[4];
extern char g_msg[4][12];       // message of the k-th record
extern char g_tag[4][4];        // tag of the k-th record as seen by the formatter
#ifndef NO_GLOBAL_DEFS
int g_nfmt, g_nsink_a, g_nsink_b, g_nlazy, g_order_n;
int g_order[8];
int g_sev[4];
int g_len[4];
char g_msg[4][12];
char g_tag[4][4];
#endif
// the statement(s) of grid point (MINIDX_, filt, sev): syntactic variant and second statement per log_variant.h; pieces: string a,
// integer n (0..99), char c, string b, and 0..2 lazily evaluated callables
int CAT(log_stmt_, SFX)(unsigned filt, unsigned sev, unsigned thr0, unsigned thr1, unsigned thr0b, unsigned thr1b, const char* a, int n, char c, const char* b);
}

namespace
{
struct fake_clock
{
    typedef long time_point;
    static time_point now()
    {
        return 7;
    }
};
using R = nitro::log::record<nitro::log::message_attribute, nitro::log::severity_attribute, nitro::log::tag_attribute,
                             nitro::log::timestamp_clock_attribute<fake_clock>>;
template <typename Rec>
struct fmt
{
    std::string format(Rec& r)
    {
        if (g_nfmt < 4)
        {
            const std::string t = r.tag();
            std::size_t i = 0;
            for (; i < t.size() && i < 3; ++i)
                g_tag[g_nfmt][i] = t[i];
            g_tag[g_nfmt][i] = 0;
        }
        ++g_nfmt;
        return r.message();
    }
};
struct snk_a
{
    void sink(nitro::log::severity_level s, const std::string& m)
    {
        if (g_nsink_a < 4)
        {
            g_sev[g_nsink_a] = static_cast<int>(s);
            g_len[g_nsink_a] = static_cast<int>(m.size());
            std::size_t i = 0;
            for (; i < m.size() && i < 11; ++i)
                g_msg[g_nsink_a][i] = m[i];
            g_msg[g_nsink_a][i] = 0;
        }
        ++g_nsink_a;
        if (g_order_n < 8)
            g_order[g_order_n++] = 1;
    }
};
struct snk_b
{
    void sink(nitro::log::severity_level, const std::string&)
    {
        ++g_nsink_b;
        if (g_order_n < 8)
            g_order[g_order_n++] = 2;
    }
};
using seq = nitro::log::sink::sequence<snk_a, snk_b>;
namespace f = nitro::log::filter;
using sf0 = f::severity_filter<R, 0>;
using sf1 = f::severity_filter<R, 1>;
template <typename Rec> using F0 = f::severity_filter<Rec, 0>;
template <typename Rec> using F1 = f::and_filter<f::severity_filter<Rec, 0>, f::severity_filter<Rec, 1>>;
template <typename Rec> using F2 = f::or_filter<f::severity_filter<Rec, 0>, f::severity_filter<Rec, 1>>;
template <typename Rec> using F3 = f::not_filter<f::severity_filter<Rec, 0>>;
template <typename Rec> using F4 = f::and_filter<f::severity_filter<Rec, 0>, f::not_filter<f::severity_filter<Rec, 1>>>;
template <typename Rec> using F5 = f::not_filter<f::not_filter<f::severity_filter<Rec, 0>>>;
template <typename Rec> using F6 = f::or_filter<f::not_filter<f::severity_filter<Rec, 0>>, f::and_filter<f::severity_filter<Rec, 0>, f::severity_filter<Rec, 1>>>;
template <typename Rec> using F7 = f::not_filter<f::and_filter<f::severity_filter<Rec, 0>, f::severity_filter<Rec, 1>>>;
template <typename Rec> using F8 = f::not_filter<f::or_filter<f::severity_filter<Rec, 0>, f::severity_filter<Rec, 1>>>;
template <typename Rec> using F9 = f::and_filter<f::or_filter<f::severity_filter<Rec, 0>, f::severity_filter<Rec, 1>>, f::not_filter<f::and_filter<f::severity_filter<Rec, 0>, f::severity_filter<Rec, 1>>>>;

unsigned g_thr0b, g_thr1b;
struct lazy_t
{
    std::string operator()() const
    {
        ++g_nlazy;
        return std::string("L");
    }
};

// statement type: smart_stream or null_stream depending on Severity >= NITRO_LOG_MIN_SEVERITY (C10, decided by the compiler)
template <typename L>
constexpr bool types_ok()
{
    using nitro::log::severity_level;
    using nitro::log::detail::null_stream;
    return (std::is_same<decltype(L::trace()), null_stream>::value == (severity_level::trace < severity_level::MINSEV)) &&
           (std::is_same<decltype(L::debug()), null_stream>::value == (severity_level::debug < severity_level::MINSEV)) &&
           (std::is_same<decltype(L::info()), null_stream>::value == (severity_level::info < severity_level::MINSEV)) &&
           (std::is_same<decltype(L::warn()), null_stream>::value == (severity_level::warn < severity_level::MINSEV)) &&
           (std::is_same<decltype(L::error()), null_stream>::value == (severity_level::error < severity_level::MINSEV)) &&
           (std::is_same<decltype(L::fatal()), null_stream>::value == (severity_level::fatal < severity_level::MINSEV));
}

// only the grid points a check run uses are instantiated (USED_MASK bit f*6+s), each with its one syntactic variant
#ifndef USED_MASK
#define USED_MASK 0xffffffffffffffffULL
#endif
constexpr bool used(unsigned f, unsigned s)
{
    return ((USED_MASK >> (f * 6 + s)) & 1ULL) != 0;
}
#define STMT(L, SEV)                                                                                                            \
    do                                                                                                                          \
    {                                                                                                                           \
        if constexpr (FORM == 0 && TAG == 1 && NLAZY == 0) L::SEV("tg") << a << n << c << b;                                    \
        if constexpr (FORM == 0 && TAG == 1 && NLAZY == 1) L::SEV("tg") << a << n << lazy_t() << c << b;                        \
        if constexpr (FORM == 0 && TAG == 1 && NLAZY == 2) L::SEV("tg") << lazy_t() << a << n << c << lazy_t() << b;            \
        if constexpr (FORM == 0 && TAG == 0 && NLAZY == 0) L::SEV() << a << n << c << b;                                        \
        if constexpr (FORM == 0 && TAG == 0 && NLAZY == 1) L::SEV() << a << n << lazy_t() << c << b;                            \
        if constexpr (FORM == 0 && TAG == 0 && NLAZY == 2) L::SEV() << lazy_t() << a << n << c << lazy_t() << b;                \
        if constexpr (FORM == 2)                                                                                                \
        {                                                                                                                       \
            auto s = TAG ? L::SEV("tg") : L::SEV();                                                                             \
            if constexpr (NLAZY == 2) s << lazy_t();                                                                            \
            s << a;                                                                                                             \
            L::SEV() << "in";       /* a complete statement of the same severity while s is still open */                       \
            s << n;                                                                                                             \
            if constexpr (NLAZY == 1) s << lazy_t();                                                                            \
            s << c;                                                                                                             \
            if constexpr (NLAZY == 2) s << lazy_t();                                                                            \
            s << b;                                                                                                             \
        }                                                                                                                       \
        if constexpr (FORM == 1)                                                                                                \
        {                                                                                                                       \
            auto s = TAG ? L::SEV("tg") : L::SEV();                                                                             \
            if constexpr (NLAZY == 2) s << lazy_t();                                                                            \
            char abuf[4] = { 0, 0, 0, 0 }; /* the first piece comes from a partly filled char ARRAY: its text ends at the NUL */ \
            for (unsigned i_ = 0; i_ < 3 && a[i_]; ++i_) abuf[i_] = a[i_];                                                      \
            s << abuf;                                                                                                          \
            s << n;                                                                                                             \
            if constexpr (NLAZY == 1) s << lazy_t();                                                                            \
            s << c;                                                                                                             \
            if constexpr (NLAZY == 2) s << lazy_t();                                                                            \
            s << b;                                                                                                             \
        }                                                                                                                       \
    } while (0)

template <typename L, unsigned FORM, unsigned TAG, unsigned NLAZY, unsigned SV>
void stmt(const char* a, int n, char c, const char* b)
{
    if constexpr (SV == 0) STMT(L, trace);
    if constexpr (SV == 1) STMT(L, debug);
    if constexpr (SV == 2) STMT(L, info);
    if constexpr (SV == 3) STMT(L, warn);
    if constexpr (SV == 4) STMT(L, error);
    if constexpr (SV == 5) STMT(L, fatal);
}
template <template <typename> class F, unsigned FI, unsigned SV>
void point(const char* a, int n, char c, const char* b)
{
    using L = nitro::log::logger<R, fmt, seq, F>;
    static_assert(types_ok<L>(), "C10: the statement type is null_stream exactly below the compile-time minimum severity");
    if constexpr (used(FI, SV))
    {
        stmt<L, VAR_FORM(MINIDX_, FI, SV), VAR_TAG(MINIDX_, FI, SV), VAR_NLAZY(MINIDX_, FI, SV), SV>(a, n, c, b);
        constexpr unsigned s2 = VAR_SEV2(MINIDX_, FI, SV);
        if constexpr (s2 < 6)
            stmt<L, 0, 0, 0, s2>("2", 0, '!', "");
        if constexpr (VAR_REPEAT(MINIDX_, FI, SV))
        {
            // the runtime thresholds change between two statements of one severity
            sf0::set_severity(static_cast<nitro::log::severity_level>(g_thr0b));
            sf1::set_severity(static_cast<nitro::log::severity_level>(g_thr1b));
            stmt<L, 0, 0, 1, SV>("3", 0, '#', "");
        }
    }
}
template <template <typename> class F, unsigned FI>
void run(unsigned sev, const char* a, int n, char c, const char* b)
{
    switch (sev)
    {
    case 0: point<F, FI, 0>(a, n, c, b); break;
    case 1: point<F, FI, 1>(a, n, c, b); break;
    case 2: point<F, FI, 2>(a, n, c, b); break;
    case 3: point<F, FI, 3>(a, n, c, b); break;
    case 4: point<F, FI, 4>(a, n, c, b); break;
    default: point<F, FI, 5>(a, n, c, b); break;
    }
}
} // namespace

int CAT(log_stmt_, SFX)(unsigned filt, unsigned sev, unsigned thr0, unsigned thr1, unsigned thr0b, unsigned thr1b, const char* a, int n, char c, const char* b)
{
    g_thr0b = thr0b;
    g_thr1b = thr1b;
    sf0::set_severity(static_cast<nitro::log::severity_level>(thr0));
    sf1::set_severity(static_cast<nitro::log::severity_level>(thr1));
    switch (filt)
    {
    case 0: run<F0, 0>(sev, a, n, c, b); break;
    case 1: run<F1, 1>(sev, a, n, c, b); break;
    case 2: run<F2, 2>(sev, a, n, c, b); break;
    case 3: run<F3, 3>(sev, a, n, c, b); break;
    case 4: run<F4, 4>(sev, a, n, c, b); break;
    case 5: run<F5, 5>(sev, a, n, c, b); break;
    case 6: run<F6, 6>(sev, a, n, c, b); break;
    case 7: run<F7, 7>(sev, a, n, c, b); break;
    case 8: run<F8, 8>(sev, a, n, c, b); break;
    case 9: run<F9, 9>(sev, a, n, c, b); break;
    }
    return g_nsink_a;
}
