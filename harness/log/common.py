import os, sys
sys.path.insert(0, os.path.join(os.path.dirname(__file__), '..', '..', 'tools'))
from vlib import Unit, Query, Runner  # noqa: E402
SEVN = ['trace', 'debug', 'info', 'warn', 'error', 'fatal']
FILTN = ['sf0', 'and(sf0,sf1)', 'or(sf0,sf1)', 'not(sf0)', 'and(sf0,not(sf1))', 'not(not(sf0))', 'or(not(sf0),and(sf0,sf1))', 'not(and(sf0,sf1))', 'not(or(sf0,sf1))',
         'and(or(sf0,sf1),not(and(sf0,sf1)))']


def fspec(f, t0, t1, sev):
    a, b = sev >= t0, sev >= t1
    return [a, a and b, a or b, not a, a and not b, a, (not a) or (a and b), not (a and b), not (a or b), (a or b) and not (a and b)][f]


def log_runner(prop, tier):
    th = tier == 'thorough'
    nf = 10 if th else 6
    qs, corpus = [], []
    import random
    rnd = random.Random(int(os.environ.get('VERIF_SEED', '0') or 0))
    used = [0] * 6
    for m in range(6):
        for f in range(nf):
            for sv in range(6):
                # quick: every (minimum, severity) pair with two filters each + every (filter, severity) pair at two minima; thorough: the full grid
                if not th and not ((f in (m % nf, (m + sv + 1) % nf)) or m in (2, 4) and f == (sv + m) % nf):
                    continue
                sev2 = (sv * 2 + m + f) % 7      # second statement: another severity, or none (6)  -- same formulas as log_variant.h
                form, tag, nlazy = (m + f + sv) % 3, (m + 2 * f + sv // 2) % 2, (m * 5 + f * 3 + sv) % 3
                rep = (m + sv + f // 2) % 2 == 0
                if prop == 'C05' and not th and (m + 2 * f + sv) % 4 == 3:
                    continue      # quick tier of C05: three quarters of the covering subset (the skipped quarter differs from what C10 skips)
                if prop == 'C10' and not th and nlazy == 0:
                    continue      # C10 is about lazily evaluated callables: its quick tier keeps the grid points that stream at least one (C05 runs all of them)
                d = ['-DMINIDX=%d' % m, '-DFILT=%d' % f, '-DSEV=%d' % sv]
                used[m] |= 1 << (f * 6 + sv)
                outcomes = set((sv >= m) and fspec(f, t0, t1, sv) for t0 in range(6) for t1 in range(6))
                w = (['statement disabled'] if False in outcomes else []) + (['statement emitted'] if True in outcomes else [])
                if rep and len(outcomes) == 2:
                    w += ['emitted, then disabled by a threshold change', 'disabled, then enabled by a threshold change']
                # three threshold settings (every filter expression accepts under at least one of them), each with the longest streamed content
                prof = [[0, 0, 97, 98, 99, 33, 42], [5, 5, 97, 98, 99, 33, 42], [0, 5, 97, 98, 99, 33, 42]]
                if rep:
                    prof = [p[:2] + t + p[2:] for p, t in zip(prof, ([0, 0], [5, 5], [0, 5]))] + [[0, 0, 5, 5, 97, 0, 0, 33, 7]]
                qs.append(Query('m%d_f%d_s%d' % (m, f, sv), d, w, unwind=2, hardcap=16, est_gb=1, profile=prof,
                                sample={'compile_time_minimum': SEVN[m], 'filter': FILTN[f], 'statement_severity': SEVN[sv], 'second_statement': SEVN[sev2] if sev2 < 6 else None,
                                        'form': ['one expression', 'named stream object', 'named stream object with another statement of the same severity issued while it is open'][form], 'tag': bool(tag), 'lazy_callables': nlazy, 'threshold_change_then_same_severity_again': rep,
                                        'symbolic': 'both runtime thresholds, streamed strings / char / integer'}))
                if len(corpus) < 60:
                    corpus += [(d, p) for p in prof[:2]]
    fl = lambda m: ['-DMINSEV=%s' % SEVN[m], '-DSFX=%d' % m, '-DMINIDX_=%d' % m, '-DUSED_MASK=0x%xULL' % used[m]]
    tus = [('harness/log/h_log.cpp', fl(m) + ['-DNO_GLOBAL_DEFS']) for m in range(1, 6)]
    obl = [('statement type is null_stream exactly below the minimum %s' % SEVN[m], 'harness/log/h_log.cpp', fl(m)) for m in range(6)]
    if prop == 'C10':
        # include order: a nitro log header included BEFORE the macro is defined must not fix the compile-time minimum
        for first in ('severity.hpp', 'attribute/severity.hpp', 'filter/severity_filter.hpp', 'record.hpp'):
            for m in (3, 5):
                obl.append(('minimum %s defined after including nitro/log/%s: statement types still follow the macro' % (SEVN[m], first), 'harness/log/h_order.cpp',
                            ['-DMINSEV=%s' % SEVN[m], '-DFIRST_HEADER=<nitro/log/%s>' % first], 'static assertion failed'))
    u = Unit('logging', 'harness/log/h_log.cpp', 'harness/log/cb_log.c', caps={'str': 12, 'vec': 2, 'ss': 12}, cxx_defs=fl(0), extra_tus=tus, inc=['harness/log'],
             obligations=obl, queries=qs, corpus=corpus)
    return Runner(prop, tier, [u],
                  bounds={'grid': '%d queries: (compile-time minimum x filter expression x statement severity) enumerated outside the solver (quick: a covering subset, thorough: the full 6 x 10 x 6 grid)' % len(qs),
                          'per_query_symbolic': 'both thresholds 0..5, one-expression vs named stream object, with/without tag, 0..2 lazy callables, strings of 0..2 and 0..1 bytes, a char, an integer 0..99, a second statement; for half of the grid points a further statement of the same severity after both thresholds were set again to new symbolic values'},
                  outside=['the real sinks (stdout, file, syslog) and attributes other than message/severity/tag/timestamp', 'integers above 99 (stream model bound)', 'filter expressions beyond the ten listed',
                           'more than three statements in sequence, more than one change of the runtime thresholds'],
                  assumptions=['formatter and sink are the user-supplied template parameters of the logger (a counting formatter, a recording sequence<A,B> sink), the clock is a fake clock',
                               'the type-level half of C10 (statement type == null_stream below the minimum) is a static_assert decided by the compiler for each of the six minima, not by the solver'])
