/* C05 / C10: a log statement reaches the sink exactly once iff enabled, unaltered; disabled statements evaluate nothing.
 * shape (-D): MINIDX compile-time minimum (0..5), FILT filter expression, SEV statement severity, SEV2 second statement (6 = none) */
#include "vharness.h"
#include "all.h"
#include "log_variant.h"
#define SEV2 VAR_SEV2(MINIDX, FILT, SEV)
extern u32 g_nfmt, g_nsink_a, g_nsink_b, g_nlazy, g_order_n; extern u32 g_order[8]; extern u32 g_sev[4]; extern u32 g_len[4]; extern u8 g_msg[4][12]; extern u8 g_tag[4][4];
#define CAT2(a, b) a##b
#define CAT(a, b) CAT2(a, b)
#define LOG_STMT CAT(log_stmt_, MINIDX)

static int sf(u32 thr, u32 sev) { return sev >= thr; }
static int filter_spec(u32 f, u32 t0, u32 t1, u32 sev)
{
    int a = sf(t0, sev), b = sf(t1, sev);
    switch (f) {
    case 0: return a;
    case 1: return a && b;
    case 2: return a || b;
    case 3: return !a;
    case 4: return a && !b;
    case 5: return a;                       /* not(not(x)) */
    case 6: return !a || (a && b);
    case 7: return !(a && b);
    case 8: return !(a || b);
    default: return (a || b) && !(a && b);
    }
}
int main(void)
{
    ir2c_global_ctors();
    u32 thr0 = in_range(0, 5), thr1 = in_range(0, 5);
    u32 rep = VAR_REPEAT(MINIDX, FILT, SEV); u32 thr0b = 0, thr1b = 0;
    if (rep) { thr0b = in_range(0, 5); thr1b = in_range(0, 5); }
    u32 form = VAR_FORM(MINIDX, FILT, SEV), with_tag = VAR_TAG(MINIDX, FILT, SEV), nlazy = VAR_NLAZY(MINIDX, FILT, SEV);   /* enumerated outside the solver */
    (void)form;
    u8 a[3] = { in_u8(), in_u8(), 0 }; u8 b[2] = { in_u8(), 0 }; u8 c = in_ch(); u32 n = in_range(0, 99);
    u32 al = a[0] ? (a[1] ? 2 : 1) : 0, bl = b[0] ? 1 : 0;
    LOG_STMT(FILT, SEV, thr0, thr1, thr0b, thr1b, a, n, c, b);
    int en1 = SEV >= MINIDX && filter_spec(FILT, thr0, thr1, SEV);
    int en2 = SEV2 < 6 && SEV2 >= MINIDX && filter_spec(FILT, thr0, thr1, SEV2);
    u32 inner = (form == 2 && en1) ? 1u : 0u;     /* FORM 2: the statement issued while the named stream is open completes first */
    int en3 = rep && SEV >= MINIDX && filter_spec(FILT, thr0b, thr1b, SEV);     /* the filter verdict follows the thresholds in force when the statement runs */
    u32 want = (u32)en1 + (u32)en2 + inner + (u32)en3;
    CHECK(g_nsink_a == want && g_nfmt == want, "C05: one record reaches the formatter and the sink exactly once iff severity >= compile-time minimum and the runtime filter expression accepts it; otherwise nothing does");
    CHECK(g_nsink_b == want, "C05: a sequence sink forwards the record once to each member");
    int order_ok = g_order_n == 2 * want; for (u32 i = 0; i < 2 * want && i < 8; ++i) if (g_order[i] != (i % 2 ? 2u : 1u)) order_ok = 0;
    CHECK(order_ok, "C05: sequence members are called in declaration order, records in program order");
    CHECK(g_nlazy == (en1 ? nlazy : 0) + (en3 ? 1u : 0u), "C10: a callable streamed for lazy evaluation is called exactly once if the record is emitted and never otherwise");
    if (en1) {
        u8 e[12]; u32 el = 0;
        if (nlazy == 2) e[el++] = 'L';
        for (u32 i = 0; i < al; ++i) e[el++] = a[i];
        if (n >= 10) e[el++] = '0' + n / 10; e[el++] = '0' + n % 10;
        if (nlazy == 1) e[el++] = 'L';
        e[el++] = c;
        if (nlazy == 2) e[el++] = 'L';
        for (u32 i = 0; i < bl; ++i) e[el++] = b[i];
        if (inner) CHECK(g_len[0] == 2 && g_msg[0][0] == 'i' && g_msg[0][1] == 'n' && g_sev[0] == SEV, "C05: a statement issued while a named stream object of the same severity is open is delivered unaltered");
        int same = g_len[inner] == el; for (u32 i = 0; same && i < el; ++i) if (g_msg[inner][i] != e[i]) same = 0;
        CHECK(same, "C05: the message equals the concatenation, in order, of everything streamed into the statement (lazy pieces at the point where they were streamed)");
        CHECK(g_sev[inner] == SEV, "C05: the delivered record carries the statement's severity");
        CHECK(with_tag ? (g_tag[inner][0] == 't' && g_tag[inner][1] == 'g' && g_tag[inner][2] == 0) : g_tag[inner][0] == 0, "C05: the delivered record carries the statement's tag");
    }
    if (en2) {
        u32 k = (en1 ? 1 : 0) + inner;
        CHECK(g_sev[k] == SEV2 && g_len[k] == 3 && g_msg[k][0] == '2' && g_msg[k][1] == '0' && g_msg[k][2] == '!', "C05: records of one thread arrive in program order");
    }
    if (en3) {
        u32 k = (en1 ? 1 : 0) + inner + (en2 ? 1 : 0);
        CHECK(g_sev[k] == SEV && g_len[k] == 4 && g_msg[k][0] == '3' && g_msg[k][1] == '0' && g_msg[k][2] == 'L' && g_msg[k][3] == '#', "C05: a statement issued after the runtime thresholds changed is delivered unaltered");
    }
    if (rep) { WITNESS_AT(en1 && !en3, "emitted, then disabled by a threshold change"); WITNESS_AT(!en1 && en3, "disabled, then enabled by a threshold change"); }
    WITNESS_AT(en1, "statement emitted");
    WITNESS_AT(!en1, "statement disabled");
    OBS("nfmt=%u a=%u b=%u lazy=%u order=%u sev=%u len=%u\n", g_nfmt, g_nsink_a, g_nsink_b, g_nlazy, g_order_n, g_sev[0], g_len[0]); OBS_STR("msg", g_msg[0], g_len[0] < 11 ? g_len[0] : 11);
    HARNESS_END();
}
