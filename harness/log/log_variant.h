/* which syntactic variant the statement of grid point (compile-time minimum m, filter f, severity s) uses: shared by the C++ harness
 * (only that variant is instantiated) and the C harness main (which knows what to expect).  Every variant occurs across the grid. */
#ifndef LOG_VARIANT_H
#define LOG_VARIANT_H
#define VAR_FORM(m, f, s) (((m) + (f) + (s)) % 3)                 /* 0 = one expression, 1 = named stream object filled over several statements,
                                                                      2 = named stream object, with ANOTHER statement of the same severity issued while it is open */
#define VAR_TAG(m, f, s) (((m) + 2 * (f) + (s) / 2) % 2)          /* with / without tag */
#define VAR_NLAZY(m, f, s) (((m) * 5 + (f) * 3 + (s)) % 3)        /* number of lazily evaluated callables streamed */
#define VAR_SEV2(m, f, s) (((s) * 2 + (m) + (f)) % 7)             /* severity of the second statement, 6 = none */
#define VAR_REPEAT(m, f, s) ((((m) + (s) + (f) / 2) % 2) == 0) /* after the statement(s): both runtime thresholds are set AGAIN (new symbolic values) and a
                                                                      further statement of the same severity (one expression, one lazy callable) is issued */
#endif
