// C10, type-level half, include order: the compile-time minimum is whatever NITRO_LOG_MIN_SEVERITY says where the logger is defined
// (nitro/log/log.hpp), also when another nitro log header was included BEFORE the macro was defined (a header that only declares
// severities, attributes or filters does not fix the minimum).  Decided by the compiler: this TU must compile.
#include FIRST_HEADER
#define NITRO_LOG_MIN_SEVERITY MINSEV
#include <nitro/log/log.hpp>
#include <nitro/log/attribute/message.hpp>
#include <nitro/log/attribute/severity.hpp>
#include <nitro/log/attribute/timestamp.hpp>
#include <nitro/log/filter/severity_filter.hpp>
#include <nitro/log/sink/stdout.hpp>
#include <string>
#include <type_traits>
namespace
{
using R = nitro::log::record<nitro::log::message_attribute, nitro::log::severity_attribute, nitro::log::timestamp_attribute>;
template <typename Rec>
struct fmt
{
    std::string format(Rec& r)
    {
        return r.message();
    }
};
template <typename Rec>
using flt = nitro::log::filter::severity_filter<Rec>;
using L = nitro::log::logger<R, fmt, nitro::log::sink::StdOut, flt>;
using nitro::log::severity_level;
using nitro::log::detail::null_stream;
static_assert(std::is_same<decltype(L::trace()), null_stream>::value == (severity_level::trace < severity_level::MINSEV), "trace");
static_assert(std::is_same<decltype(L::debug()), null_stream>::value == (severity_level::debug < severity_level::MINSEV), "debug");
static_assert(std::is_same<decltype(L::info()), null_stream>::value == (severity_level::info < severity_level::MINSEV), "info");
static_assert(std::is_same<decltype(L::warn()), null_stream>::value == (severity_level::warn < severity_level::MINSEV), "warn");
static_assert(std::is_same<decltype(L::error()), null_stream>::value == (severity_level::error < severity_level::MINSEV), "error");
static_assert(std::is_same<decltype(L::fatal()), null_stream>::value == (severity_level::fatal < severity_level::MINSEV), "fatal");
} // namespace
