// C09 harness: the body of one thread -- a sequence of records logged through a thread-safe sink.
// The environment (mutex, the shared output device) is supplied by the harness main, which records every access as an event.
#include <nitro/log/log.hpp>
#include <nitro/log/attribute/message.hpp>
#include <nitro/log/attribute/severity.hpp>
#include <nitro/log/attribute/timestamp.hpp>
#include <nitro/log/filter/severity_filter.hpp>
#include <nitro/log/sink/stderr_mt.hpp>
#include <nitro/log/sink/stdout.hpp>
#include <nitro/log/sink/stdout_mt.hpp>
#include <string>

extern "C" {
void hook_record_start(unsigned k); // marks the start of the k-th record of the current thread in the event list
// kind 0: stdout_mt::sink, 1: StdErrThreaded::sink, 2: logger<..., stdout_mt, ...>::info() << record, 9: the lock-free StdOut sink (negative control)
void thread_body(unsigned kind, unsigned nrec, const char* r0, const char* r1, unsigned sev0, unsigned sev1);
}
namespace
{
struct fake_clock
{
    typedef long time_point;
    static time_point now()
    {
        return 0;
    }
};
using R = nitro::log::record<nitro::log::message_attribute, nitro::log::severity_attribute, nitro::log::timestamp_clock_attribute<fake_clock>>;
template <typename Rec>
struct fmt
{
    std::string format(Rec& r)
    {
        return r.message();
    }
};
template <typename Rec>
using flt = nitro::log::filter::severity_filter<Rec, 0>;
using mt_logger = nitro::log::logger<R, fmt, nitro::log::sink::stdout_mt, flt>;
} // namespace

void thread_body(unsigned kind, unsigned nrec, const char* r0, const char* r1, unsigned sev0, unsigned sev1)
{
    const char* recs[2] = { r0, r1 };
    const nitro::log::severity_level sevs[2] = { static_cast<nitro::log::severity_level>(sev0), static_cast<nitro::log::severity_level>(sev1) };
    for (unsigned k = 0; k < nrec && k < 2; ++k)
    {
        hook_record_start(k);
        if (kind == 0)
        {
            nitro::log::sink::stdout_mt s; // a fresh sink object per record: the mutex must still be shared
            s.sink(sevs[k], recs[k]);
        }
        else if (kind == 1)
        {
            nitro::log::sink::StdErrThreaded s;
            s.sink(sevs[k], recs[k]);
        }
        else if (kind == 2)
        {
            mt_logger::info() << recs[k];
        }
        else
        {
            nitro::log::sink::StdOut s;
            s.sink(sevs[k], recs[k]);
        }
    }
}
