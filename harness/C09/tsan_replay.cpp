// C09, confirmation of a "stale view" counterexample on the REAL code: NTHR threads log their first record through the sink at the same
// moment; built with clang++ -fsanitize=thread against /repo's headers and the real libstdc++.  ThreadSanitizer reports unsynchronised
// accesses by happens-before analysis, so the race does not have to go wrong in this very run to be seen.
#include <nitro/log/log.hpp>
#include <nitro/log/attribute/message.hpp>
#include <nitro/log/attribute/severity.hpp>
#include <nitro/log/attribute/timestamp.hpp>
#include <nitro/log/filter/severity_filter.hpp>
#include <nitro/log/sink/stderr_mt.hpp>
#include <nitro/log/sink/stdout_mt.hpp>
#include <atomic>
#include <cstdlib>
#include <string>
#include <thread>
#include <vector>
namespace
{
struct fake_clock
{
    typedef long time_point;
    static time_point now()
    {
        return 0;
    }
};
using R = nitro::log::record<nitro::log::message_attribute, nitro::log::severity_attribute, nitro::log::timestamp_clock_attribute<fake_clock>>;
template <typename Rec>
struct fmt
{
    std::string format(Rec& r)
    {
        return r.message();
    }
};
template <typename Rec>
using flt = nitro::log::filter::severity_filter<Rec, 0>;
using mt_logger = nitro::log::logger<R, fmt, nitro::log::sink::stdout_mt, flt>;
std::atomic<int> ready{ 0 };
} // namespace
int main(int argc, char** argv)
{
    int kind = argc > 1 ? std::atoi(argv[1]) : 0, nthr = argc > 2 ? std::atoi(argv[2]) : 2;
    std::vector<std::thread> ts;
    for (int t = 0; t < nthr; ++t)
        ts.emplace_back([=] {
            ready.fetch_add(1);
            while (ready.load() < nthr)
            {
            }
            std::string rec(1, static_cast<char>('a' + t));
            if (kind == 0)
            {
                nitro::log::sink::stdout_mt s;
                s.sink(nitro::log::severity_level::info, rec);
            }
            else if (kind == 1)
            {
                nitro::log::sink::StdErrThreaded s;
                s.sink(nitro::log::severity_level::info, rec);
            }
            else
                mt_logger::info() << rec;
        });
    for (auto& t : ts)
        t.join();
    return 0;
}
