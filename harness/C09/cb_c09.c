/* C09: thread-safe sinks emit each concurrent record once and contiguously, under EVERY interleaving.
 *
 * One CBMC query, two phases:
 *  1. each thread body (the real sink / logger code) runs against an event-recording environment: mutex lock/unlock, and every
 *     byte handed to the shared device is split into two micro-steps READ_LEN ; WRITE (a deliberately non-thread-safe stream)
 *  2. a symbolic scheduler interleaves the NTHR event lists in every possible way (LOCK is enabled iff the mutex is free)
 * Nothing the environment returns to a thread depends on another thread (lock returns nothing, the device is write-only,
 * tellp() of the non-seekable core is the constant -1), so per-thread extraction is exact.
 */
#include "vharness.h"
#include "all.h"
#ifndef NTHR
#define NTHR 2
#endif
#ifndef KIND
#define KIND 0
#endif
#ifndef MAXREC
#define MAXREC 2
#endif
#define RLEN 2      /* record bytes: 1..RLEN, symbolic */
#define MAXEV 24
enum { EV_LOCK = 1, EV_UNLOCK, EV_READLEN, EV_WRITE, EV_FLUSH, EV_START, EV_SETLEN, EV_TRYLOCK };
struct ev { u8 kind; u8 byte; u8 rec; u32* mtx; };
static struct ev evs[NTHR][MAXEV]; static u32 nev[NTHR]; static u32 cur; static u32 ev_overflow;
static void rec_ev(u8 k, u8 b, u32* m) { if (nev[cur] >= MAXEV) { ev_overflow = 1; return; } evs[cur][nev[cur]].kind = k; evs[cur][nev[cur]].byte = b; evs[cur][nev[cur]].mtx = m; nev[cur]++; }
void __vstd_mutex_lock(u32* m) { rec_ev(EV_LOCK, 0, m); }
void __vstd_mutex_unlock(u32* m) { rec_ev(EV_UNLOCK, 0, m); }
void __vstd_shared_put(u32 which, u8 ch) { (void)which; rec_ev(EV_READLEN, 0, 0); rec_ev(EV_WRITE, ch, 0); }
/* flush of the deliberately non-thread-safe device: reads the length and writes it back (harmless under the lock, loses bytes when it
   interleaves with another thread's append) */
void __vstd_shared_flush(u32 which) { (void)which; rec_ev(EV_READLEN, 1, 0); rec_ev(EV_SETLEN, 0, 0); }
/* try_lock: the outcome is chosen nondeterministically while the thread body is extracted and later forced to agree with the schedule */
u32 __vstd_mutex_try_lock(u32* m) { u32 got = in_range(0, 1); rec_ev(EV_TRYLOCK, (u8)got, m); return got; }
void hook_record_start(u32 k) { rec_ev(EV_START, (u8)k, 0); }

int main(void)
{
    ir2c_global_ctors();
    /* records: thread t logs nrec[t] records of 1..RLEN symbolic non-NUL bytes */
    u8 recs[NTHR][MAXREC][RLEN + 1]; u32 rlen[NTHR][MAXREC]; u32 nrec[NTHR];
    for (u32 t = 0; t < NTHR; ++t) {
        nrec[t] = in_range(1, MAXREC);
        for (u32 k = 0; k < MAXREC; ++k) {
            rlen[t][k] = in_range(1, RLEN);
            for (u32 i = 0; i < RLEN; ++i) recs[t][k][i] = i < rlen[t][k] ? in_ch() : 0;
            recs[t][k][RLEN] = 0;
        }
    }
    /* phase 1: per-thread event extraction from the real code */
    u32 sev[NTHR][2]; for (u32 t = 0; t < NTHR; ++t) { sev[t][0] = in_range(0, 5); sev[t][1] = in_range(0, 5); }   /* every severity, also fatal */
    for (u32 t = 0; t < NTHR; ++t) {
        cur = t;
#ifdef STALE
        /* "stale view": every thread body is extracted from the INITIAL state of the sink's own (unguarded, mutable) statics, i.e. the
           interleaving in which all threads read that state before any of them writes it.  Exact when those accesses are unsynchronised
           (a data race); an over-approximation when they are ordered by a lock -- a counterexample of this variant is therefore only
           reported after ThreadSanitizer has confirmed a data race inside nitro's code on the real build (plan.py: confirm_tsan) */
        ir2c_reset_nitro_statics();
#endif
        thread_body(KIND, nrec[t], recs[t][0], recs[t][1 % MAXREC], sev[t][0], sev[t][1]);
    }
    CHECK(!ev_overflow, "C09 (harness): event list large enough");
    /* phase 2: every interleaving */
    u8 dev[NTHR * MAXREC * RLEN + 2]; u32 dev_len = 0; u32 latched[NTHR]; u32 pc[NTHR]; u32* held = 0;
    u32 order_t[NTHR * MAXREC], order_k[NTHR * MAXREC], norder = 0;     /* ghost: order in which the records STARTED to be inserted */
    u32 total = 0; for (u32 t = 0; t < NTHR; ++t) { total += nev[t]; pc[t] = 0; latched[t] = 0; }
    u32 currec[NTHR]; u32 started[NTHR]; for (u32 t = 0; t < NTHR; ++t) { currec[t] = 0; started[t] = 0; }
    u32 deadlock = 0;
    for (u32 step = 0; step < NTHR * MAXEV; ++step) {
        if (step >= total) break;
        u32 t = in_range(0, NTHR - 1);
        int any = 0;
        for (u32 x = 0; x < NTHR; ++x) if (pc[x] < nev[x] && !(evs[x][pc[x]].kind == EV_LOCK && held == evs[x][pc[x]].mtx && held != 0)) any = 1;
        if (!any) { deadlock = 1; break; }
        ASSUME(pc[t] < nev[t] && !(evs[t][pc[t]].kind == EV_LOCK && held == evs[t][pc[t]].mtx && held != 0));
        struct ev e = evs[t][pc[t]]; pc[t]++;
        if (e.kind == EV_LOCK) held = e.mtx;
        else if (e.kind == EV_UNLOCK) { if (held == e.mtx) held = 0; }
        else if (e.kind == EV_START) { currec[t] = e.byte; started[t] = 0; }
        else if (e.kind == EV_TRYLOCK) { ASSUME((e.byte != 0) == (held == 0 || held != e.mtx)); if (e.byte) held = e.mtx; }
        else if (e.kind == EV_SETLEN) { dev_len = latched[t]; }
        else if (e.kind == EV_READLEN && e.byte == 1) { latched[t] = dev_len; }
        else if (e.kind == EV_READLEN) { latched[t] = dev_len; if (!started[t]) { started[t] = 1; if (norder < NTHR * MAXREC) { order_t[norder] = t; order_k[norder] = currec[t]; } norder++; } }
        else if (e.kind == EV_WRITE) { if (latched[t] < sizeof dev) dev[latched[t]] = e.byte; dev_len = latched[t] + 1; }
    }
    CHECK(!deadlock, "C09: no deadlock: some thread can always proceed until all are done");
    /* expected device content: the records, whole, in the order in which their insertions began */
    u32 want_n = 0; for (u32 t = 0; t < NTHR; ++t) want_n += nrec[t];
    int ok = norder == want_n; u32 pos = 0;
    for (u32 i = 0; ok && i < norder && i < NTHR * MAXREC; ++i) {
        u32 t = order_t[i], k = order_k[i];
        for (u32 j = 0; j < rlen[t][k]; ++j) { if (pos >= dev_len || dev[pos] != recs[t][k][j]) ok = 0; pos++; }
    }
    if (pos != dev_len) ok = 0;
    CHECK(ok, "C09: every record appears exactly once and as one contiguous byte run (no interleaving, none lost or duplicated)");
    int po = 1; for (u32 t = 0; t < NTHR; ++t) { u32 next = 0; for (u32 i = 0; i < norder && i < NTHR * MAXREC; ++i) if (order_t[i] == t) { if (order_k[i] != next) po = 0; next++; } }
    CHECK(po, "C09: each thread's records appear in that thread's program order");
    WITNESS_AT(norder >= 2 && order_t[0] == 1, "a schedule in which thread 1 writes first");
    WITNESS_AT(norder >= 2 && order_t[0] == 0 && order_t[1] == 1, "a schedule in which the threads alternate");
    OBS("dev_len=%u norder=%u\n", dev_len, norder);
    HARNESS_END();
}
