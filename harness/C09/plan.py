import os, sys
sys.path.insert(0, os.path.join(os.path.dirname(__file__), '..', '..', 'tools'))
from vlib import Unit, Query, Runner, REPO, VERIF, sh
import re, subprocess, threading
_tsan_lock = threading.Lock()
_tsan_cache = {}


def confirm_tsan(runner, u, q, desc, vin):
    """a counterexample of a stale-view query counts only if ThreadSanitizer sees a data race inside nitro's own code when the threads
    log their first record at the same moment on the real build (clang++ -fsanitize=thread, real libstdc++)"""
    kind = int([d for d in q.defs if d.startswith('-DKIND=')][0][7:])
    nthr = int([d for d in q.defs if d.startswith('-DNTHR=')][0][7:])
    with _tsan_lock:
        if (kind, nthr) in _tsan_cache:
            return _tsan_cache[(kind, nthr)]
        exe = os.path.join(u.dir, 'tsan_replay')
        if not os.path.exists(exe):
            p = sh(['clang++-14', '-std=c++17', '-O1', '-g', '-w', '-fsanitize=thread', '-I', os.path.join(REPO, 'include'), os.path.join(VERIF, 'harness/C09/tsan_replay.cpp'), '-o', exe, '-pthread'], check=False)
            if p.returncode != 0:
                r = (False, 'ThreadSanitizer build of the real code failed: ' + p.stdout[-300:])
                _tsan_cache[(kind, nthr)] = r
                return r
        r = (False, 'ThreadSanitizer: no data race inside nitro in 30 runs of %d threads logging their first record at once' % nthr)
        for i in range(30):
            try:
                p = subprocess.run([exe, str(kind), str(nthr)], stdout=subprocess.PIPE, stderr=subprocess.PIPE, timeout=60, env=dict(os.environ, TSAN_OPTIONS='halt_on_error=0 exitcode=0'))
            except subprocess.TimeoutExpired:
                continue
            err = p.stderr.decode('latin-1')
            for rep in err.split('=================='):
                if 'ThreadSanitizer: data race' in rep and re.search(r'include/nitro/', rep):
                    loc = (re.findall(r'#0 ([^\n]*include/nitro/[^\n ]*)', rep) or re.findall(r'([^\n ]*include/nitro/[^\n ]*)', rep) or ['?'])[0]
                    r = (True, 'ThreadSanitizer on the real build (run %d): data race inside nitro at %s -- the threads do not agree on the sink\'s own state, so (solver schedule) %s' % (i + 1, loc.strip()[:200], desc))
                    break
            if r[0]:
                break
        _tsan_cache[(kind, nthr)] = r
        return r

KINDS = {0: 'stdout_mt::sink', 1: 'StdErrThreaded::sink', 2: 'logger<..., stdout_mt, ...>::info() << record'}


def plan(tier):
    th = tier == 'thorough'
    qs = []
    W = ['a schedule in which thread 1 writes first', 'a schedule in which the threads alternate']
    for kind in (0, 1, 2):
        for nthr, maxrec in (((2, 1), (2, 2), (3, 1), (3, 2)) if th else (((2, 1), (3, 1)) if kind == 0 else ((2, 1),))):
            if kind == 2 and nthr == 3 and maxrec == 2:
                continue
            d = ['-DKIND=%d' % kind, '-DNTHR=%d' % nthr, '-DMAXREC=%d' % maxrec]
            nvin = nthr * (1 + maxrec * 3)
            prof = [[1, 2, 97, 98, 1, 99, 0][:1 + 3 * maxrec] * nthr + [2, 5] * nthr + [0, 1, 0, 1] * 12, [maxrec, 1, 97, 0, 2, 99, 100][:1 + 3 * maxrec] * nthr + [5, 0] * nthr + [1, 0, 0, 1, 1, 0] * 8]
            qs.append(Query('k%d_t%d_r%d' % (kind, nthr, maxrec), d, W, unwind=2, hardcap=nthr * 24 + 4, est_gb=4, timeout=3000 if th else 900, profile=prof, harness_unwind=nthr * 24 + 2, trust_solver=True,
                            sample={'sink': KINDS[kind], 'threads': nthr, 'records_per_thread': '1..%d' % maxrec, 'record_bytes': '1..2 symbolic', 'schedules': 'all (symbolic scheduler)'}))
    # "stale view" variants: every thread body extracted from the initial state of the sink's own unguarded statics (see cb_c09.c); a
    # counterexample is a candidate that only counts after ThreadSanitizer confirmed a data race inside nitro on the real build
    for kind in (0, 1, 2):
        b = [x for x in qs if x.name == 'k%d_t2_r1' % kind][0]
        qs.append(Query('stale_k%d_t2_r1' % kind, b.defs + ['-DSTALE=1'], W, unwind=2, hardcap=b.hardcap, est_gb=4, timeout=b.timeout, profile=b.profile, harness_unwind=b.harness_unwind, trust_solver=True,
                        confirm=confirm_tsan, sample={'sink': KINDS[kind], 'threads': 2, 'records_per_thread': 1, 'view': 'each thread starts from the initial state of the sink\'s own unguarded statics (unsynchronised lazy initialisation); candidates confirmed by ThreadSanitizer on the real build'}))
    # negative control: the lock-free StdOut sink (no mutex) must be refuted by the same scheduler harness
    qs.append(Query('control_lockfree_t2_r1', ['-DKIND=9', '-DNTHR=2', '-DMAXREC=1'], [], unwind=2, hardcap=52, est_gb=4, profile=qs[0].profile, harness_unwind=50, trust_solver=True,
                    expect_fail=True, sample={'sink': 'StdOut (no lock): negative control, must be refuted', 'threads': 2}))
    corpus = []
    u = Unit('mt', 'harness/C09/h_c09.cpp', 'harness/C09/cb_c09.c', caps={'str': 8, 'vec': 2, 'ss': 8}, cxx_defs=['-DVSTD_SHARED_STDIO', '-DNITRO_VERIF_NO_MESSAGES'], queries=qs, corpus=[], ir2c_flags=['--atomics-are-model-limit'])
    return Runner('C09', tier, [u],
                  bounds={'threads': '2 (quick) / 2..3 (thorough)', 'records_per_thread': '1..2', 'record_bytes': '1..2, symbolic', 'schedules': 'every interleaving of the recorded events (lock, unlock, read-length, write-byte, flush)'},
                  outside=['synchronisation by anything but std::mutex (a sink that locks through atomic read-modify-write operations makes the check inconclusive, not alarmed: the scheduler model interprets mutex and device events only)', 'data races on the sink\'s own state that change a thread\'s control flow (each thread body is extracted on its own; e.g. an unsynchronised lazily created mutex)', 'data races inside libstdc++ ostream other than the modelled non-atomic append', 'more than 3 threads', 'correctness of std::mutex and of thread-safe function-local statics (trusted)',
                           'native replay of a schedule (would need a schedule-forcing streambuf); a violation is reported from the solver trace with the mutant-style explanation'],
                  assumptions=['std::mutex / lock_guard are the vstd models that call the harness hooks; std::cout / std::cerr are non-seekable cores whose every byte is handed to the shared-device model',
                               'per-thread event extraction is exact because no environment call returns data that depends on another thread'])
