// C17 harness: drives the real nitro::lang::{split,join,replace_all,starts_with}
#include <nitro/lang/string.hpp>
#include <string>
#include <vector>
extern "C" {
// every string crosses the boundary as (pointer, length); outputs as (buffer, capacity) -> length
int k_split(const char* h, unsigned hl, const char* n, unsigned nl, char* out, unsigned piece_cap, unsigned max_pieces,
            unsigned* lens, unsigned* cnt);
int k_repl(const char* h, unsigned hl, const char* p, unsigned pl, const char* r, unsigned rl, char* out, unsigned cap,
           unsigned* len);
int k_sw(const char* a, unsigned al, const char* b, unsigned bl);
int k_join3(const char* e0, unsigned l0, const char* e1, unsigned l1, const char* e2, unsigned l2, unsigned n,
            const char* inf, unsigned il, int default_infix, char* out, unsigned cap, unsigned* len);
int k_join_ints(int a, int b, unsigned n, char* out, unsigned cap, unsigned* len);
}
static unsigned put(char* d, unsigned cap, const std::string& s)
{
    for (std::size_t i = 0; i < s.size() && i < cap; ++i)
        d[i] = s[i];
    return static_cast<unsigned>(s.size());
}
int k_split(const char* h, unsigned hl, const char* n, unsigned nl, char* out, unsigned piece_cap, unsigned max_pieces,
            unsigned* lens, unsigned* cnt)
{
    try
    {
        auto v = nitro::lang::split(std::string(h, hl), std::string(n, nl));
        *cnt = static_cast<unsigned>(v.size());
        for (std::size_t i = 0; i < v.size() && i < max_pieces; ++i)
            lens[i] = put(out + i * piece_cap, piece_cap, v[i]);
        return 0;
    }
    catch (...)
    {
        return 1;
    }
}
int k_repl(const char* h, unsigned hl, const char* p, unsigned pl, const char* r, unsigned rl, char* out, unsigned cap,
           unsigned* len)
{
    try
    {
        std::string s(h, hl);
        nitro::lang::replace_all(s, std::string(p, pl), std::string(r, rl));
        *len = put(out, cap, s);
        return 0;
    }
    catch (...)
    {
        return 1;
    }
}
int k_sw(const char* a, unsigned al, const char* b, unsigned bl)
{
    return nitro::lang::starts_with(std::string(a, al), std::string(b, bl)) ? 1 : 0;
}
int k_join3(const char* e0, unsigned l0, const char* e1, unsigned l1, const char* e2, unsigned l2, unsigned n,
            const char* inf, unsigned il, int default_infix, char* out, unsigned cap, unsigned* len)
{
    try
    {
        std::vector<std::string> v;
        if (n > 0)
            v.emplace_back(e0, l0);
        if (n > 1)
            v.emplace_back(e1, l1);
        if (n > 2)
            v.emplace_back(e2, l2);
        std::string s = default_infix ? nitro::lang::join(v) : nitro::lang::join(v.begin(), v.end(), std::string(inf, il));
        *len = put(out, cap, s);
        return 0;
    }
    catch (...)
    {
        return 1;
    }
}
int k_join_ints(int a, int b, unsigned n, char* out, unsigned cap, unsigned* len)
{
    try
    {
        std::vector<int> v;
        if (n > 0)
            v.push_back(a);
        if (n > 1)
            v.push_back(b);
        std::string s = nitro::lang::join(v.begin(), v.end(), std::string(","));
        *len = put(out, cap, s);
        return 0;
    }
    catch (...)
    {
        return 1;
    }
}
