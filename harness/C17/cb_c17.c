/* C17: split / replace_all / starts_with / join against naive C reference scanners.
 * shape (-D): MODE_*, HL (haystack length), NL (needle/pattern), RL (replacement); all bytes symbolic (1..255) */
#include "vharness.h"
#include "all.h"
#ifndef HL
#define HL 0
#endif
#ifndef NL
#define NL 0
#endif
#ifndef RL
#define RL 0
#endif
static int match_at(const u8* h, int hl, int i, const u8* n, int nl)
{
    if (i + nl > hl) return 0;
    for (int k = 0; k < nl; ++k) if (h[i + k] != n[k]) return 0;
    return 1;
}
int main(void)
{
    ir2c_global_ctors();
    u8 h[HL + 1], n[NL + 1];
    in_fill(h, HL); in_fill(n, NL);
#if defined(MODE_SPLIT)
    enum { PC = HL + 1, MP = HL + 2 };
    u8 out[MP][PC]; u32 lens[MP]; u32 cnt = 0;
    memset(out, 0, sizeof out); memset(lens, 0, sizeof lens);
    u32 st = k_split(h, HL, n, NL, &out[0][0], PC, MP, lens, &cnt);
    CHECK(st == (NL == 0), "C17 split: raises exactly for the empty separator");
    WITNESS_AT(st == 0 && cnt >= 2, "split returns two or more pieces");
    WITNESS_AT(st == 0 && cnt == 1, "split returns one piece");
    WITNESS_AT(st == 1, "split raises");
    if (!st) {
        u32 occ = 0; int i = 0;
        while (i + NL <= HL) { if (match_at(h, HL, i, n, NL)) { ++occ; i += NL; } else ++i; }
        CHECK(cnt == occ + 1, "C17 split: number of pieces == non-overlapping occurrences + 1");
        u8 g[2 * HL + NL + 4]; u32 gl = 0; int ok = cnt <= MP;
        for (u32 p = 0; ok && p < cnt; ++p) {
            if (p) for (int k = 0; k < NL; ++k) { if (gl < sizeof g) g[gl] = n[k]; gl++; }
            if (lens[p] > HL) ok = 0;
            for (u32 k = 0; ok && k < lens[p]; ++k) { if (gl < sizeof g) g[gl] = out[p][k]; gl++; }
            /* no piece contains the separator */
            for (int k = 0; ok && k + NL <= (int)lens[p]; ++k) CHECK(!match_at(out[p], lens[p], k, n, NL), "C17 split: no piece contains the separator");
        }
        int same = ok && gl == HL;
        for (int k = 0; same && k < HL; ++k) if (g[k] != h[k]) same = 0;
        CHECK(same, "C17 split: pieces glued with the separator reproduce the input");
        OBS("split cnt=%u\n", cnt);
        for (u32 p = 0; p < cnt && p < MP; ++p) OBS_STR("piece", out[p], lens[p] <= PC ? lens[p] : PC);
    }
    OBS("st=%u\n", st);
#elif defined(MODE_REPL)
    enum { CAP = HL + HL * RL + RL + 2 };
    u8 r[RL + 1]; in_fill(r, RL);
    u8 out[CAP]; u32 len = 0; memset(out, 0, sizeof out);
    u32 st = k_repl(h, HL, n, NL, r, RL, out, CAP, &len);
    CHECK(st == 0, "C17 replace_all: returns (no exception)");
    WITNESS_AT(st == 0 && len != HL, "replace_all changed the length");
    WITNESS_AT(st == 0, "replace_all returns");
    if (NL > 0) {
        u8 e[CAP]; u32 el = 0; int i = 0;
        while (i < HL) {
            if (match_at(h, HL, i, n, NL)) { for (int k = 0; k < RL; ++k) e[el++] = r[k]; i += NL; }
            else e[el++] = h[i++];
        }
        int same = len == el;
        for (u32 k = 0; same && k < el; ++k) if (out[k] != e[k]) same = 0;
        CHECK(same, "C17 replace_all: equals one left-to-right pass over non-overlapping occurrences (replacement never rescanned)");
    }
    /* for an empty pattern the statement only demands that the call returns */
    OBS("st=%u len=%u\n", st, len); OBS_STR("out", out, len < CAP ? len : CAP);
#elif defined(MODE_SW)
    u32 got = k_sw(h, HL, n, NL);
    int pre = NL <= HL; for (int k = 0; pre && k < NL; ++k) if (h[k] != n[k]) pre = 0;
    CHECK(got == (u32)pre, "C17 starts_with: exactly the prefix relation");
    WITNESS_AT(got == 1, "starts_with true");
    WITNESS_AT(got == 0, "starts_with false");
    OBS("sw=%u\n", got);
#elif defined(MODE_JOIN)
    /* three elements of lengths EL0,EL1,EL2 (bytes symbolic, blanks included), N of them used, infix of length NL (in n) */
#ifndef EL0
#define EL0 0
#endif
#ifndef EL1
#define EL1 0
#endif
#ifndef EL2
#define EL2 0
#endif
#ifndef NE
#define NE 3
#endif
#ifndef DEFINFIX
#define DEFINFIX 0
#endif
    u8 e0[EL0 + 1], e1[EL1 + 1], e2[EL2 + 1];
    in_fill(e0, EL0); in_fill(e1, EL1); in_fill(e2, EL2);
    enum { CAP = EL0 + EL1 + EL2 + 2 * NL + 4 };
    u8 out[CAP]; u32 len = 0; memset(out, 0, sizeof out);
    u32 st = k_join3(e0, EL0, e1, EL1, e2, EL2, NE, n, NL, DEFINFIX, out, CAP, &len);
    CHECK(st == 0, "C17 join: returns");
    const u8* inf = DEFINFIX ? (const u8*)" " : n; u32 il = DEFINFIX ? 1 : NL;
    u8 x[CAP]; u32 xl = 0; int first = 1;
    const u8* es[3] = { e0, e1, e2 }; u32 ls[3] = { EL0, EL1, EL2 };
    for (u32 i = 0; i < NE; ++i) {
        if (ls[i] == 0) continue;
        if (!first) for (u32 k = 0; k < il; ++k) x[xl++] = inf[k];
        for (u32 k = 0; k < ls[i]; ++k) x[xl++] = es[i][k];
        first = 0;
    }
    int same = len == xl; for (u32 k = 0; same && k < xl; ++k) if (out[k] != x[k]) same = 0;
    CHECK(same, "C17 join: non-empty elements separated by the infix, nothing leading/trailing/doubled, element text unchanged");
    WITNESS_AT(st == 0 && len > 0, "join returns non-empty text");
    OBS("st=%u len=%u\n", st, len); OBS_STR("out", out, len < CAP ? len : CAP);
#elif defined(MODE_JOININT)
    u32 a = in_range(0, 99), b = in_range(0, 99), cnt = JI_N;
    u8 out[12]; u32 len = 0; memset(out, 0, sizeof out);
    u32 st = k_join_ints((i32)a, (i32)b, cnt, out, 12, &len);
    u8 x[12]; u32 xl = 0;
    if (cnt > 0) { if (a >= 10) x[xl++] = '0' + a / 10; x[xl++] = '0' + a % 10; }
    if (cnt > 1) { x[xl++] = ','; if (b >= 10) x[xl++] = '0' + b / 10; x[xl++] = '0' + b % 10; }
    int same = st == 0 && len == xl; for (u32 k = 0; same && k < xl; ++k) if (out[k] != x[k]) same = 0;
    CHECK(same, "C17 join: joins the stream representation of non-string elements");
    WITNESS_AT(st == 0 && len >= JI_N, "join of numbers returns");
    OBS("st=%u len=%u\n", st, len); OBS_STR("out", out, len < 12 ? len : 12);
#else
#error "no MODE"
#endif
    HARNESS_END();
}
