import itertools
import os, sys
sys.path.insert(0, os.path.join(os.path.dirname(__file__), '..', '..', 'tools'))
from vlib import Unit, Query, Runner


def plan(tier):
    thorough = tier == 'thorough'
    HMAX = 5 if thorough else 4
    qs, corpus = [], []
    # split: haystack 0..HMAX, needle 0..2
    for hl in range(0, HMAX + 1):
        for nl in range(0, 3):
            w = ['split raises'] if nl == 0 else (['split returns one piece'] + (['split returns two or more pieces'] if hl >= nl else []))
            qs.append(Query('split_h%d_n%d' % (hl, nl), ['-DMODE_SPLIT', '-DHL=%d' % hl, '-DNL=%d' % nl], w, unwind=hl + 3, hardcap=hl + 6,
                            est_gb=2, sample={'fn': 'split', 'haystack_bytes': hl, 'needle_bytes': nl}))
    for hl in range(0, HMAX + 1):
        for nl in range(0, 3):
            for rl in range(0, 3):
                w = ['replace_all returns'] + (['replace_all changed the length'] if nl and hl >= nl and rl != nl else [])
                qs.append(Query('repl_h%d_p%d_r%d' % (hl, nl, rl), ['-DMODE_REPL', '-DVSTD_BOUND_ASSERT', '-DHL=%d' % hl, '-DNL=%d' % nl, '-DRL=%d' % rl], w,
                                unwind=hl + 3, hardcap=hl * max(rl, 1) + 8, est_gb=2,
                                sample={'fn': 'replace_all', 'haystack_bytes': hl, 'pattern_bytes': nl, 'replacement_bytes': rl}))
    for hl in range(0, 4):
        for nl in range(0, 4):
            w = (['starts_with true'] if nl <= hl else []) + (['starts_with false'] if nl > 0 else [])
            qs.append(Query('sw_h%d_n%d' % (hl, nl), ['-DMODE_SW', '-DHL=%d' % hl, '-DNL=%d' % nl], w, unwind=6, est_gb=1,
                            sample={'fn': 'starts_with', 'full_bytes': hl, 'beginning_bytes': nl}))
    EL = (0, 1, 2)
    for ne in (0, 1, 2, 3):
        for ls in itertools.product(EL, repeat=ne):
            ls3 = list(ls) + [0] * (3 - ne)
            for il, dflt in ((0, 0), (1, 0), (2, 0), (0, 1)):
                if not thorough and (sum(ls3) > 4 or (il == 2 and sum(ls3) > 3)):
                    continue
                w = ['join returns non-empty text'] if sum(ls3) > 0 else []
                qs.append(Query('join_n%d_%d%d%d_i%d%s' % (ne, ls3[0], ls3[1], ls3[2], il, 'd' if dflt else ''),
                                ['-DMODE_JOIN', '-DNE=%d' % ne, '-DEL0=%d' % ls3[0], '-DEL1=%d' % ls3[1], '-DEL2=%d' % ls3[2], '-DNL=%d' % il,
                                 '-DDEFINFIX=%d' % dflt], w, unwind=10, est_gb=1,
                                sample={'fn': 'join', 'elements': ne, 'element_bytes': ls3, 'infix_bytes': il, 'default_infix': bool(dflt)}))
    for n in (0, 1, 2):
        qs.append(Query('join_ints_n%d' % n, ['-DMODE_JOININT', '-DJI_N=%d' % n], ['join of numbers returns'], unwind=6, est_gb=2,
                        sample={'fn': 'join<int>', 'elements': n, 'values': '0..99'}))
    # differential corpus: the repo's own test inputs (tests/string_test.cpp) + boundary inputs, as bytes
    def b(s):
        return [ord(c) for c in s]
    corpus += [(['-DMODE_SPLIT', '-DHL=5', '-DNL=1'], b('1;2;3') + b(';')),
               (['-DMODE_SPLIT', '-DHL=5', '-DNL=2'], b('1##2#') + b('##')),
               (['-DMODE_SPLIT', '-DHL=4', '-DNL=2'], b('##1#') + b('##')),
               (['-DMODE_SPLIT', '-DHL=4', '-DNL=2'], b('aaaa') + b('aa')),
               (['-DMODE_SPLIT', '-DHL=0', '-DNL=1'], b(';')),
               (['-DMODE_SPLIT', '-DHL=3', '-DNL=0'], b('abc')),
               (['-DMODE_SPLIT', '-DHL=3', '-DNL=1'], b('abc') + b('x')),
               (['-DMODE_REPL', '-DVSTD_BOUND_ASSERT', '-DHL=5', '-DNL=2', '-DRL=1'], b('abbab') + b('ab') + b('c')),
               (['-DMODE_REPL', '-DVSTD_BOUND_ASSERT', '-DHL=4', '-DNL=1', '-DRL=2'], b('aaba') + b('a') + b('aa')),
               (['-DMODE_REPL', '-DVSTD_BOUND_ASSERT', '-DHL=4', '-DNL=2', '-DRL=0'], b('abab') + b('ab')),
               (['-DMODE_REPL', '-DVSTD_BOUND_ASSERT', '-DHL=0', '-DNL=1', '-DRL=1'], b('a') + b('b')),
               (['-DMODE_SW', '-DHL=3', '-DNL=2'], b('Egg') + b('Eg')),
               (['-DMODE_SW', '-DHL=3', '-DNL=2'], b('Egg') + b('gg')),
               (['-DMODE_SW', '-DHL=2', '-DNL=3'], b('Eg') + b('Egg')),
               (['-DMODE_SW', '-DHL=0', '-DNL=0'], []),
               (['-DMODE_JOIN', '-DNE=3', '-DEL0=1', '-DEL1=1', '-DEL2=1', '-DNL=1', '-DDEFINFIX=0'], b(',') + b('abc')),
               (['-DMODE_JOIN', '-DNE=3', '-DEL0=1', '-DEL1=0', '-DEL2=1', '-DNL=0', '-DDEFINFIX=1'], b('ab')),
               (['-DMODE_JOIN', '-DNE=3', '-DEL0=0', '-DEL1=0', '-DEL2=0', '-DNL=0', '-DDEFINFIX=1'], []),
               (['-DMODE_JOIN', '-DNE=2', '-DEL0=2', '-DEL1=2', '-DEL2=0', '-DNL=2', '-DDEFINFIX=0'], b(', ') + b('abcd')),
               (['-DMODE_JOIN', '-DNE=0', '-DEL0=0', '-DEL1=0', '-DEL2=0', '-DNL=1', '-DDEFINFIX=0'], b(',')),
               (['-DMODE_JOININT', '-DJI_N=2'], [1, 23]), (['-DMODE_JOININT', '-DJI_N=1'], [7, 0]), (['-DMODE_JOININT', '-DJI_N=0'], [0, 0])]
    u = Unit('strings', 'harness/C17/h_c17.cpp', 'harness/C17/cb_c17.c', caps={'str': 24, 'vec': 8, 'ss': 24},
             cxx_defs=['-DNITRO_VERIF_NO_MESSAGES'], queries=qs, corpus=corpus, hints='harness/C17/hints_strings.json')
    return Runner('C17', tier, [u],
                  bounds={'haystack_bytes': '0..%d' % HMAX, 'needle_or_pattern_bytes': '0..2', 'replacement_bytes': '0..2',
                          'starts_with': 'both strings 0..3 bytes', 'join': '0..3 elements of 0..2 bytes, infix 0..2 bytes or the default blank; two ints 0..99',
                          'byte_values': 'every byte 1..255 symbolic'},
                  outside=['strings longer than the bounds', 'NUL bytes inside strings', 'element types other than std::string and int for join'],
                  assumptions=['std::string/std::vector/std::stringstream are the vstd models (find/substr/replace/tellp semantics written from the standard)'])
