// C18 harness: quaint_ptr ownership histories and lang::optional copy semantics
#include <functional>
#include <memory>
#include <vector>
#include <nitro/lang/optional.hpp>
#include <nitro/lang/quaint_ptr.hpp>

extern "C" {
#define MAXOBJ 8
extern int g_obj_type[MAXOBJ], g_dtor_a[MAXOBJ], g_dtor_b[MAXOBJ];   // type 1 = A, 2 = B
extern int g_nobj;
// run a history of n operations (op codes and a small argument each); afterwards everything is destroyed.
// out_state[k] (after step k): bit0 p0 non-empty, bit1 p1 non-empty, bits 4.. vector size ; out_val[k]: value read through p0 (A::x) or -1
int q_history(unsigned n, const int* ops, const int* args, int* out_state, int* out_val);
// optional<Cnt>
extern long g_cnt_live, g_cnt_double;
int o_history(unsigned n, const int* ops, const int* args, int* out_has, int* out_val, int* out_raised, int* alias);
}
int g_obj_type[MAXOBJ], g_dtor_a[MAXOBJ], g_dtor_b[MAXOBJ];
int g_nobj;
long g_cnt_live, g_cnt_double;

namespace
{
using nitro::lang::quaint_ptr;
bool g_in_reset;   // set by the harness around an explicit reset(): only then does a B reach back to its owner
struct A
{
    int id;
    int x;
    explicit A(int v) : id(g_nobj), x(v)
    {
        if (g_nobj < MAXOBJ)
            g_obj_type[g_nobj] = 1;
        ++g_nobj;
    }
    ~A()
    {
        if (id < MAXOBJ)
            ++g_dtor_a[id];
    }
};
// A B knows the pointer that owns it and, while that pointer is being reset(), asks it to let go of it (an object that unregisters
// itself).  reset() must have emptied the owner BEFORE the destructor runs (std::unique_ptr::reset does), so the nested call finds
// nothing to destroy; an owner that still holds the dying object would destroy it twice.
struct B
{
    int id;
    long y;
    quaint_ptr* owner;
    B() : id(g_nobj), y(7), owner(nullptr)
    {
        if (g_nobj < MAXOBJ)
            g_obj_type[g_nobj] = 2;
        ++g_nobj;
    }
    ~B()
    {
        if (id < MAXOBJ)
            ++g_dtor_b[id];
        if (g_in_reset && owner != nullptr && owner->get() == static_cast<void*>(this))
            owner->reset();
    }
};
} // namespace

int q_history(unsigned n, const int* ops, const int* args, int* out_state, int* out_val)
{
    {
        quaint_ptr p[2];
        std::vector<quaint_ptr> vec;
        for (unsigned k = 0; k < n; ++k)
        {
            int s = args[k] & 1;
            switch (ops[k])
            {
            case 0: // create an A in slot s (overwrites what the slot held)
                p[s] = nitro::lang::make_quaint<A>(10 + static_cast<int>(k));
                break;
            case 1: // create a B in slot s; it remembers its owner
                p[s] = nitro::lang::make_quaint<B>();
                static_cast<B*>(p[s].get())->owner = &p[s];
                break;
            case 2: // move-assign slot s from the other slot
                p[s] = std::move(p[1 - s]);
                break;
            case 3: // reset slot s (the pointee may reach back to the slot while it dies)
                g_in_reset = true;
                p[s].reset();
                g_in_reset = false;
                break;
            case 4: // move-construct a temporary from slot s, then the temporary dies
            {
                quaint_ptr t(std::move(p[s]));
                break;
            }
            case 5: // move slot s into the vector
                vec.push_back(std::move(p[s]));
                break;
            case 6: // "reallocation": every element is move-constructed into new storage, the old storage dies
            {
                std::vector<quaint_ptr> w;
                for (auto& e : vec)
                    w.push_back(std::move(e));
                vec = std::move(w);
                break;
            }
            case 7: // destroy the vector's last element
                if (!vec.empty())
                    vec.pop_back();
                break;
            case 8: // move the vector's last element back into slot s
                if (!vec.empty())
                {
                    p[s] = std::move(vec.back());
                    vec.pop_back();
                }
                break;
            }
            out_state[k] = (p[0] ? 1 : 0) | (p[1] ? 2 : 0) | (p[0].get() == nullptr ? 0 : 4) | (p[1].get() == nullptr ? 0 : 8) |
                           (static_cast<int>(vec.size()) << 4);
            out_val[k] = -1;
        }
    }
    return g_nobj;
}

namespace
{
struct Cnt
{
    int alive;
    int v;
    explicit Cnt(int x) : alive(1), v(x)
    {
        ++g_cnt_live;
    }
    Cnt(const Cnt& o) : alive(1), v(o.v)
    {
        ++g_cnt_live;
    }
    Cnt& operator=(const Cnt& o)
    {
        v = o.v;
        return *this;
    }
    ~Cnt()
    {
        if (!alive)
            ++g_cnt_double;
        alive = 0;
        --g_cnt_live;
    }
};
using opt = nitro::lang::optional<Cnt>;
} // namespace

int o_history(unsigned n, const int* ops, const int* args, int* out_has, int* out_val, int* out_raised, int* alias)
{
    *alias = 0;
    {
        std::unique_ptr<opt> o[2];
        o[0] = std::make_unique<opt>();
        o[1] = std::make_unique<opt>();
        for (unsigned k = 0; k < n; ++k)
        {
            int s = args[k] & 1;
            int val = args[k] >> 1;
            out_raised[k] = 0;
            switch (ops[k])
            {
            case 0: // construct empty
                o[s] = std::make_unique<opt>();
                break;
            case 1: // construct with a value
                o[s] = std::make_unique<opt>(Cnt(val));
                break;
            case 2: // copy-construct slot s from the other slot
                o[s] = std::make_unique<opt>(*o[1 - s]);
                break;
            case 3: // copy-assign slot s from the other slot
                *o[s] = *o[1 - s];
                break;
            case 4: // assign a value
                *o[s] = Cnt(val);
                break;
            case 5: // assign an empty optional
                *o[s] = opt();
                break;
            case 6: // read
                break;
            case 7: // copy-assign the optional to itself (through a reference, as pool[i] = pool[j] with i == j does)
            {
                const opt& same = *o[s];
                *o[s] = same;
                break;
            }
            }
            for (int t = 0; t < 2; ++t)
            {
                out_has[2 * k + t] = static_cast<bool>(*o[t]) ? 1 : 0;
                try
                {
                    out_val[2 * k + t] = (**o[t]).v;
                }
                catch (nitro::except::exception&)
                {
                    out_val[2 * k + t] = -1;
                    if (t == s)
                        out_raised[k] = 1;
                }
            }
            if (static_cast<bool>(*o[0]) && static_cast<bool>(*o[1]) && &**o[0] == &**o[1])
                *alias = 1;
        }
    }
    return 0;
}
