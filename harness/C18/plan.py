import os, sys
sys.path.insert(0, os.path.join(os.path.dirname(__file__), '..', '..', 'tools'))
from vlib import Unit, Query, Runner
QOPS = ['make<A> into slot', 'make<B> into slot', 'move-assign slot from the other', 'reset', 'move-construct a temporary that dies', 'push into vector',
        'reallocate vector (move every element to new storage)', 'pop vector', 'move vector.back() into slot']
OOPS = ['construct empty', 'construct with value', 'copy-construct from the other', 'copy-assign from the other', 'assign value', 'assign empty optional', 'read', 'copy-assign to itself']


def plan(tier):
    th = tier == 'thorough'
    qs, corpus = [], []
    for n in ((3, 4, 5) if th else (3, 4)):
        for op0 in range(9):
            for op1 in range(9):
                if op0 >= 2 and n == (5 if th else 4):
                    continue   # the longest histories start by creating an object (the others begin with a no-op on empty holders)
                qs.append(Query('quaint_%d_%d%d' % (n, op0, op1), ['-DMODE_Q', '-DNOPS=%d' % n, '-DQ_OP0=%d' % op0, '-DQ_OP1=%d' % op1],
                                ['an object destroyed before the end of the history'] if op0 < 2 else [],
                                unwind=2, hardcap=16, est_gb=2, timeout=3000 if th else 900,
                                profile=[[0, 1, 5, 0, 6, 0, 8, 1][:2 * n - 2 + 0][: 2 * n], [1, 0, 3, 1, 4, 0, 7, 0][:2 * n], [0, 0, 2, 0, 8, 0, 3, 0][:2 * n]],
                                sample={'history': '%d operations over two owning pointers and a vector; the first two operation kinds are fixed, the rest symbolic' % n,
                                        'first_operations': [QOPS[op0], QOPS[op1]], 'operations': QOPS}))
        qs.append(Query('optional_%d' % n, ['-DMODE_O', '-DNOPS=%d' % n], ['both optionals hold values at the end', 'last step reads an empty optional'],
                        unwind=2, hardcap=16, est_gb=2, timeout=3000 if th else 900,
                        profile=[[1, 0, 5, 2, 1, 0, 3, 0, 0, 4, 1, 9, 5, 0, 0][:3 * n], [1, 1, 7, 3, 0, 0, 5, 1, 0, 6, 0, 0, 2, 1, 0][:3 * n], [0, 0, 0, 6, 0, 0, 4, 1, 50, 2, 0, 0, 3, 1, 0][:3 * n], [1, 0, 9, 7, 0, 0, 6, 0, 0, 7, 1, 0, 5, 0, 0][:3 * n]],
                        sample={'history': '%d symbolic operations over two optionals of an instance-counting value type' % n, 'operations': OOPS}))
    corpus = [(['-DMODE_Q', '-DNOPS=3'], v) for v in ([0, 0, 1, 1, 2, 0], [0, 0, 5, 0, 6, 0], [0, 0, 3, 0, 3, 0], [1, 1, 4, 1, 0, 1], [0, 0, 5, 0, 8, 1], [0, 1, 5, 1, 7, 0])] + \
             [(['-DMODE_O', '-DNOPS=3'], v) for v in ([1, 0, 5, 2, 1, 0, 5, 0, 0], [1, 0, 5, 3, 1, 0, 6, 1, 0], [0, 0, 0, 6, 0, 0, 4, 0, 9], [1, 1, 3, 5, 1, 0, 6, 1, 0], [1, 0, 2, 1, 1, 3, 3, 0, 0])]
    u = Unit('owning', 'harness/C18/h_c18.cpp', 'harness/C18/cb_c18.c', caps={'str': 8, 'vec': 6, 'ss': 8}, cxx_defs=['-DNITRO_VERIF_NO_MESSAGES'], queries=qs, corpus=corpus)
    return Runner('C18', tier, [u], bounds={'history_length': '3..4 (quick) / 3..5 (thorough) symbolic operations, slots and values symbolic', 'pool': 'two owning pointers + one vector; two optionals'},
                  outside=['histories longer than the bound', 'more than two pointers / optionals', 'vector reallocation is modelled as moving every element into new storage (what std::vector does on growth)'],
                  assumptions=['std::unique_ptr<void, std::function<void(void*)>> and std::function are the real libstdc++ headers (in the IR); std::vector is the vstd model'])
