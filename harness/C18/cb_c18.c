/* C18: owning wrappers destroy exactly once (by the creating type's destructor) and optional copies deeply.
 * modes: MODE_Q (quaint_ptr history of NOPS symbolic operations), MODE_O (optional history) */
#include "vharness.h"
#include "all.h"
#ifndef NOPS
#define NOPS 3
#endif
#define MAXOBJ 8
extern u32 g_obj_type[MAXOBJ], g_dtor_a[MAXOBJ], g_dtor_b[MAXOBJ]; extern u32 g_nobj; extern u64 g_cnt_live, g_cnt_double;
int main(void)
{
    ir2c_global_ctors();
    u32 ops[NOPS], args[NOPS];
#if defined(MODE_Q)
    /* reference ownership model: each holder is empty (0) or holds object id+1 */
    u32 slot[2] = { 0, 0 }; u32 vec[NOPS + 1]; u32 vn = 0; u32 created = 0; u32 rtype[MAXOBJ]; u32 rdead[MAXOBJ]; memset(rdead, 0, sizeof rdead); memset(rtype, 0, sizeof rtype);
    u32 exp_state[NOPS];
    for (int k = 0; k < NOPS; ++k) {
#ifdef Q_OP0
        ops[k] = k == 0 ? Q_OP0 : (k == 1 ? Q_OP1 : in_range(0, 8));   /* first two operation kinds enumerated outside the solver */
#else
        ops[k] = in_range(0, 8);
#endif
        args[k] = in_range(0, 1);
        u32 s = args[k] & 1;
        switch (ops[k]) {
        case 0: case 1: if (slot[s]) rdead[slot[s] - 1]++; rtype[created] = ops[k] == 0 ? 1 : 2; slot[s] = ++created; break;
        case 2: if (slot[s]) rdead[slot[s] - 1]++; slot[s] = slot[1 - s]; slot[1 - s] = 0; break;
        case 3: if (slot[s]) rdead[slot[s] - 1]++; slot[s] = 0; break;
        case 4: if (slot[s]) rdead[slot[s] - 1]++; slot[s] = 0; break;
        case 5: vec[vn++] = slot[s]; slot[s] = 0; break;
        case 6: break;
        case 7: if (vn) { --vn; if (vec[vn]) rdead[vec[vn] - 1]++; } break;
        case 8: if (vn) { if (slot[s]) rdead[slot[s] - 1]++; slot[s] = vec[--vn]; } break;
        }
        exp_state[k] = (slot[0] ? 5 : 0) | (slot[1] ? 10 : 0) | (vn << 4);
    }
    u32 st[NOPS], val[NOPS]; memset(st, 0, sizeof st);
    u32 n = q_history(NOPS, ops, args, st, val);
    CHECK(n == created, "C18 (harness sanity): as many objects were created as the history asked for");
    int ok = 1, right_type = 1;
    for (u32 i = 0; i < created && i < MAXOBJ; ++i) {
        if (g_dtor_a[i] + g_dtor_b[i] != 1) ok = 0;
        if (rtype[i] == 1 ? g_dtor_a[i] != 1 : g_dtor_b[i] != 1) right_type = 0;
    }
    CHECK(ok, "C18: every object created through the owning pointer is destroyed exactly once (at reset, when overwritten, or with its last owner)");
    CHECK(right_type, "C18: every object is destroyed by the destructor of the type it was created with");
    for (int k = 0; k < NOPS; ++k) CHECK(st[k] == exp_state[k], "C18: a moved-from or reset pointer is empty (bool and get()), a target of a move owns the object");
    WITNESS_AT(created >= 2 && vn >= 1, "history with two objects and a vector element");
    WITNESS_AT(created >= 1 && rdead[0] == 1, "an object destroyed before the end of the history");
    OBS("n=%u st=%u,%u\n", n, st[0], st[NOPS - 1]); for (u32 i = 0; i < created && i < MAXOBJ; ++i) OBS(" obj%u type=%d da=%d db=%d\n", i, (int)g_obj_type[i], (int)g_dtor_a[i], (int)g_dtor_b[i]);
#elif defined(MODE_O)
    i32 has[2] = { 0, 0 }, v[2] = { 0, 0 };
    i32 ehas[2 * NOPS], eval_[2 * NOPS], eraise[NOPS];
    for (int k = 0; k < NOPS; ++k) {
#ifdef O_OPS
        { static const u32 chosen[NOPS] = O_OPS; ops[k] = chosen[k]; }
#else
        ops[k] = in_range(0, 7);
#endif
        u32 s = in_range(0, 1), val = in_range(0, 100);
        args[k] = s | (val << 1);
        switch (ops[k]) {
        case 0: has[s] = 0; break;
        case 1: has[s] = 1; v[s] = (i32)val; break;
        case 2: case 3: has[s] = has[1 - s]; if (has[s]) v[s] = v[1 - s]; break;
        case 4: has[s] = 1; v[s] = (i32)val; break;
        case 5: has[s] = 0; break;
        case 6: break;
        case 7: break;   /* self-assignment changes nothing */
        }
        for (int t = 0; t < 2; ++t) { ehas[2 * k + t] = has[t]; eval_[2 * k + t] = has[t] ? v[t] : -1; }
        eraise[k] = !has[s];
    }
    u32 ohas[2 * NOPS], oval[2 * NOPS], oraised[NOPS], alias = 0; memset(ohas, 0, sizeof ohas); memset(oval, 0, sizeof oval); memset(oraised, 0, sizeof oraised);
    o_history(NOPS, ops, args, ohas, oval, oraised, &alias);
    for (int k = 0; k < 2 * NOPS; ++k) CHECK((i32)ohas[k] == ehas[k] && (i32)oval[k] == eval_[k], "C18 optional: after every step both optionals equal the reference (copy/assign copy the value, assigning an empty optional empties the target)");
    for (int k = 0; k < NOPS; ++k) CHECK((i32)oraised[k] == eraise[k], "C18 optional: reading an empty optional raises, reading a full one does not");
    CHECK(!alias, "C18 optional: a copy never aliases its source");
    CHECK(g_cnt_live == 0 && g_cnt_double == 0, "C18 optional: no value object leaked or destroyed twice");
    WITNESS_AT(has[0] && has[1], "both optionals hold values at the end");
    WITNESS_AT(eraise[NOPS - 1], "last step reads an empty optional");
    OBS("has=%u,%u val=%d,%d alias=%u live=%ld\n", ohas[2 * NOPS - 2], ohas[2 * NOPS - 1], (i32)oval[2 * NOPS - 2], (i32)oval[2 * NOPS - 1], alias, (long)g_cnt_live);
#else
#error "no MODE"
#endif
    HARNESS_END();
}
