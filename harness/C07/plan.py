import os, sys
sys.path.insert(0, os.path.join(os.path.dirname(__file__), '..', 'fv'))
from common import *  # noqa


def plan(tier):
    return Runner('C07', tier, [fv_unit('C07', tier)], bounds=BOUNDS, outside=OUTSIDE, assumptions=ASSUMP)
