// C16 harness: nitro::lang::hash overloads, tuple_operators mix-in, hash_wrapper
#include <nitro/lang/hash.hpp>
#include <nitro/lang/tuple_operators.hpp>
#include <nitro/lang/unordered.hpp>
#include <memory>
#include <string>
#include <tuple>
#include <utility>
#include <variant>

namespace
{
struct P : nitro::lang::tuple_operators<P>
{
    int a;
    unsigned char b;
    long c;
    std::string s;
    P(int a_, unsigned char b_, long c_, const char* s_, unsigned sl) : a(a_), b(b_), c(c_), s(s_, sl)
    {
    }
    friend auto as_tuple(const P& p)
    {
        return std::tie(p.a, p.b, p.c, p.s);
    }
};
// a value type with floating-point members (signed zeros: +0.0 == -0.0 must hash equal)
struct Q : nitro::lang::tuple_operators<Q>
{
    double d;
    int a;
    float f;
    Q(double d_, int a_, float f_) : d(d_), a(a_), f(f_)
    {
    }
    friend auto as_tuple(const Q& q)
    {
        return std::tie(q.d, q.a, q.f);
    }
};
} // namespace

extern "C" {
struct pval { int a; unsigned char b; long c; const char* s; unsigned sl; };
// bit0 ==, bit1 !=, bit2 <, bit3 >, bit4 <=, bit5 >=
unsigned k_ops(const struct pval* x, const struct pval* y);
unsigned long k_hash_p(const struct pval* x);
unsigned long k_hash_p_wrapper(const struct pval* x);
// one object: built from x, hashed, then every member assigned from y, hashed again (the result) -- a hash is a function of the VALUE
unsigned long k_hash_p_after_change(const struct pval* x, const struct pval* y, unsigned long* first);
// the functors nitro::lang::unordered_set<P> / unordered_map<P,int> hand to the hash container: bit0 set::key_equal(x,y), bit1 map::key_equal(x,y)
unsigned k_container_eq(const struct pval* x, const struct pval* y);
unsigned long k_container_hash(const struct pval* x, unsigned map);
unsigned long k_hash_t2(int a, int b);
unsigned long k_hash_t3(int a, unsigned char b, long c);
unsigned long k_hash_pair(int a, long b);
unsigned long k_hash_nested(int a, int b, int c);        // tuple<pair<int,int>, int>
unsigned long k_hash_variant(int which, long v);          // variant<int,long>
unsigned long k_hash_uptr(int v);
unsigned long k_hash_sptr(int v);
unsigned long k_hash_int(int v);
unsigned long k_hash_tuple_of_ptr(int a, int b);          // tuple<unique_ptr<int>, int>
// floating point
unsigned k_ops_q(double d1, int a1, float f1, double d2, int a2, float f2);
unsigned long k_hash_q(double d, int a, float f);
unsigned long k_hash_td(int a, double d);                 // tuple<int,double>
unsigned long k_hash_pd(double d, int a);                 // pair<double,int>
unsigned long k_hash_vd(double d);                        // variant<int,double> holding the double
unsigned long k_hash_f(float f);
}
unsigned k_ops_q(double d1, int a1, float f1, double d2, int a2, float f2)
{
    Q x(d1, a1, f1), y(d2, a2, f2);
    return (x == y ? 1u : 0u) | (x != y ? 2u : 0u) | (x < y ? 4u : 0u) | (x > y ? 8u : 0u) | (x <= y ? 16u : 0u) |
           (x >= y ? 32u : 0u);
}
unsigned long k_hash_q(double d, int a, float f)
{
    return nitro::lang::hash(Q(d, a, f));
}
unsigned long k_hash_td(int a, double d)
{
    return nitro::lang::hash(std::make_tuple(a, d));
}
unsigned long k_hash_pd(double d, int a)
{
    return nitro::lang::hash(std::make_pair(d, a));
}
unsigned long k_hash_vd(double d)
{
    std::variant<int, double> x(d);
    return nitro::lang::hash(x);
}
unsigned long k_hash_f(float f)
{
    return nitro::lang::hash(f);
}
static P mk(const struct pval* v)
{
    return P(v->a, v->b, v->c, v->s, v->sl);
}
unsigned k_ops(const struct pval* xv, const struct pval* yv)
{
    P x = mk(xv), y = mk(yv);
    return (x == y ? 1u : 0u) | (x != y ? 2u : 0u) | (x < y ? 4u : 0u) | (x > y ? 8u : 0u) | (x <= y ? 16u : 0u) |
           (x >= y ? 32u : 0u);
}
unsigned long k_hash_p(const struct pval* x)
{
    return nitro::lang::hash(mk(x));
}
unsigned long k_hash_p_after_change(const struct pval* xv, const struct pval* yv, unsigned long* first)
{
    P x = mk(xv);
    *first = nitro::lang::hash(x);
    x.a = yv->a;
    x.b = yv->b;
    x.c = yv->c;
    x.s.assign(yv->s, yv->sl);
    P copy(x); // a copy made after the change is the same value, too
    return nitro::lang::hash(x) == nitro::lang::hash(copy) ? nitro::lang::hash(x) : ~nitro::lang::hash(x);
}
unsigned k_container_eq(const struct pval* xv, const struct pval* yv)
{
    P x = mk(xv), y = mk(yv);
    typename nitro::lang::unordered_set<P>::key_equal se;
    typename nitro::lang::unordered_map<P, int>::key_equal me;
    return (se(x, y) ? 1u : 0u) | (me(x, y) ? 2u : 0u);
}
unsigned long k_container_hash(const struct pval* xv, unsigned map)
{
    P x = mk(xv);
    if (map)
        return typename nitro::lang::unordered_map<P, int>::hasher()(x);
    return typename nitro::lang::unordered_set<P>::hasher()(x);
}
unsigned long k_hash_p_wrapper(const struct pval* x)
{
    return nitro::lang::hash_wrapper<P>()(mk(x));
}
unsigned long k_hash_t2(int a, int b)
{
    return nitro::lang::hash(std::make_tuple(a, b));
}
unsigned long k_hash_t3(int a, unsigned char b, long c)
{
    return nitro::lang::hash(std::make_tuple(a, b, c));
}
unsigned long k_hash_pair(int a, long b)
{
    return nitro::lang::hash(std::make_pair(a, b));
}
unsigned long k_hash_nested(int a, int b, int c)
{
    return nitro::lang::hash(std::make_tuple(std::make_pair(a, b), c));
}
unsigned long k_hash_variant(int which, long v)
{
    std::variant<int, long> x;
    if (which == 0)
        x = static_cast<int>(v);
    else
        x = v;
    return nitro::lang::hash(x);
}
unsigned long k_hash_uptr(int v)
{
    return nitro::lang::hash(std::make_unique<int>(v));
}
unsigned long k_hash_sptr(int v)
{
    return nitro::lang::hash(std::make_shared<int>(v));
}
unsigned long k_hash_int(int v)
{
    return nitro::lang::hash(v);
}
unsigned long k_hash_tuple_of_ptr(int a, int b)
{
    std::tuple<std::unique_ptr<int>, int> t(std::make_unique<int>(a), b);
    return nitro::lang::hash(t);
}
