import os, sys
sys.path.insert(0, os.path.join(os.path.dirname(__file__), '..', '..', 'tools'))
from vlib import Unit, Query, Runner

SENS = ['hash depends on component 0 of a 2-tuple', 'hash depends on the middle component of a 3-tuple', 'hash depends on component 0 of a 3-tuple',
        'pair hash depends on the first member', "nested hash depends on the inner pair's second member", 'hash depends on component order',
        'pointer hash depends on the pointee']


def plan(tier):
    th = tier == 'thorough'
    SL = 2 if th else 1
    S = ['-DSL=%d' % SL]
    pv = lambda a, b, c, s: [a, b, c >> 32 & 0xffffffff, c & 0xffffffff, len(s)] + [ord(x) for x in (s + 'zz')[:SL]]
    qs = [Query('ops', ['-DMODE_OPS'] + S, ['equal pair', 'pair ordered by a later component', 'different hashes'], unwind=2, est_gb=2, hardcap=12, timeout=3600 if th else 900,
                profile=[pv(1, 2, 3, 'a') + pv(1, 2, 3, 'a'), pv(1, 2, 3, 'a') + pv(1, 2, 3, 'b'), pv(0, 0, 0, '') + pv(1, 0, 0, 'a')],
                sample={'values': 'two symbolic (int, unsigned char, long, string of <= %d bytes)' % SL, 'claims': 'six operators == lexicographic reference; equal => equal hash; hash_wrapper == hash'}),
          Query('container_functors', ['-DMODE_CONT'] + S, ['equal pair', 'different pair'], unwind=2, est_gb=2, hardcap=12, timeout=3600 if th else 900,
                profile=[pv(1, 2, 3, 'a') + pv(1, 2, 3, 'a'), pv(1, 2, 3, 'a') + pv(1, 2, 3, 'b'), pv(0, 0, 0, '') + pv(1, 0, 0, 'a')],
                sample={'values': 'two symbolic (int, unsigned char, long, string) values', 'claims': 'unordered_set<P>::key_equal / unordered_map<P,int>::key_equal (the functors nitro::lang::unordered_* instantiate the hash container with) are value equality; their hasher is nitro::lang::hash'}),
          Query('hash_after_change', ['-DMODE_CONT', '-DCONT_CHANGE'] + S, ['equal pair', 'different pair'], unwind=2, est_gb=2, hardcap=12, timeout=3600 if th else 900,
                profile=[pv(1, 2, 3, 'a') + pv(1, 2, 3, 'a'), pv(1, 2, 3, 'a') + pv(1, 2, 3, 'b'), pv(0, 0, 0, '') + pv(1, 0, 0, 'a')],
                sample={'values': 'two symbolic values x, y', 'claims': 'an object built as x, hashed, changed member by member into y and hashed again (and a copy of it) hashes like a fresh y: the hash is a function of the current value'}),
          Query('trans', ['-DMODE_TRANS'] + S, ['chain x < y < z'], unwind=2, est_gb=2, hardcap=12,
                profile=[pv(1, 2, 3, 'a') + pv(1, 2, 3, 'b') + pv(2, 0, 0, ''), pv(0, 0, 0, '') * 3],
                sample={'values': 'three symbolic values', 'claims': 'trichotomy, transitivity of <, <=, =='}),
          Query('sens', ['-DMODE_SENS'], SENS, unwind=2, est_gb=2, hardcap=12, profile=[[1, 2, 3, 4, 5, 6, 7, 8, 0, 9, 0, 10]], required_sat=SENS,
                sample={'claims': 'last component injective (universal); per-component / order sensitivity (existential, the witness must exist)',
                        'types': 'tuple<int,int>, tuple<int,uchar,long>, pair<int,long>, tuple<pair<int,int>,int>, variant<int,long>, unique_ptr<int>, shared_ptr<int>, tuple<unique_ptr<int>,int>'})]
    def fp(d1, d2, f1, f2, a1, a2):
        import struct
        b = lambda d: struct.unpack('<Q', struct.pack('<d', d))[0]
        bf = lambda f: struct.unpack('<I', struct.pack('<f', f))[0]
        return [b(d1) >> 32, b(d1) & 0xffffffff, b(d2) >> 32, b(d2) & 0xffffffff, bf(f1), bf(f2), a1 & 0xffffffff, a2 & 0xffffffff]
    fpv = [fp(0.0, -0.0, 1.5, 1.5, 3, 3), fp(1.25, 1.25, -0.0, 0.0, -1, -1), fp(-2.5, 1e300, 0.0, 0.0, 0, 0), fp(7.0, 7.0, 1.0, 2.0, 5, 5), fp(float('inf'), float('-inf'), 0.0, 0.0, 1, 2)]
    qs.append(Query('fp', ['-DMODE_FP'], ['equal values with different zero signs', 'equal non-zero values', 'ordered by the float member', 'tuple hash depends on the double component'],
                    unwind=2, est_gb=2, hardcap=12, profile=fpv[:3], required_sat=['tuple hash depends on the double component'],
                    sample={'values': 'two symbolic (double, int, float) member tuples: every bit pattern except NaN', 'claims': 'six operators == lexicographic reference; equal => equal hash for the mix-in type, tuple<int,double>, pair<double,int>, variant<int,double>, float',
                            'note': 'std::_Hash_bytes (out of line in libstdc++) is a deterministic byte mix in the model'}))
    corpus = [(['-DMODE_FP'], v) for v in fpv] + [(['-DMODE_OPS'] + S, pv(1, 2, 3, 'a') + pv(1, 2, 3, 'a')), (['-DMODE_OPS'] + S, pv(0, 0, 0, '') + pv(1, 0, 0, '')), (['-DMODE_OPS'] + S, pv(1, 200, 5, 'a') + pv(1, 100, 5, 'a')),
              (['-DMODE_OPS'] + S, pv(1, 2, 1 << 40, 'b') + pv(1, 2, 3, 'a')), (['-DMODE_OPS'] + S, pv(0xffffffff, 2, 3, 'a') + pv(1, 2, 3, 'a')),
              (['-DMODE_TRANS'] + S, pv(1, 2, 3, 'a') + pv(1, 2, 3, 'b') + pv(2, 0, 0, '')), (['-DMODE_CONT'] + S, pv(1, 2, 3, 'a') + pv(1, 2, 3, 'a')), (['-DMODE_CONT'] + S, pv(0, 61, 0, '') + pv(1, 0, 0, '')), (['-DMODE_CONT', '-DCONT_CHANGE'] + S, pv(1, 2, 3, 'a') + pv(7, 2, 3, 'b')), (['-DMODE_CONT', '-DCONT_CHANGE'] + S, pv(1, 2, 3, 'a') + pv(1, 2, 3, 'a')), (['-DMODE_SENS'], [1, 2, 3, 4, 5, 6, 7, 8, 0, 9, 0, 10]), (['-DMODE_SENS'], [0] * 12),
              # 64-bit components that differ only in the upper / only in the lower half, sign bit, all ones
              (['-DMODE_SENS'], [1, 2, 3, 4, 5, 6, 7, 8, 1, 9, 0, 9]), (['-DMODE_SENS'], [1, 2, 3, 4, 5, 6, 7, 8, 0x80000000, 0, 0, 0]), (['-DMODE_SENS'], [0xffffffff, 0xffffffff, 0, 1, 0x7fffffff, 0x80000000, 255, 0, 0xffffffff, 0xffffffff, 0x7fffffff, 0xffffffff])]
    u = Unit('hash', 'harness/C16/h_c16.cpp', 'harness/C16/cb_c16.c', caps={'str': 4, 'vec': 2, 'ss': 4}, queries=qs, corpus=corpus)
    return Runner('C16', tier, [u],
                  bounds={'values': 'full-width symbolic int / unsigned char / long / double / float; strings of 0..%d bytes' % SL, 'pairs_triples': 'all pairs and all triples of such values'},
                  outside=['NaN members (NaN != NaN: never part of "equal values", and the member-tuple order is not total on it)', 'long double', 'std::unordered_set/map internals (libstdc++ .so code): the container clause is reduced to hash/equality coherence of the values AND of the hasher / key_equal functors nitro::lang::unordered_set / unordered_map instantiate the container with',
                           'null smart pointers (dereferenced by hash(); excluded by the statement "of hashable things")', 'wide strings'],
                  assumptions=['std::hash<float/double> is the real libstdc++ header code (zero check included); the out-of-line std::_Hash_bytes it calls is modelled by a deterministic byte mix', 'std::hash<std::string> is modelled by a deterministic, multiplication-free byte mix; std::hash<int/long/char> is the real libstdc++ header code (identity)',
                               'real <tuple>, <variant>, <memory> from libstdc++ are in the IR; shared_ptr reference-count atomics are lowered to plain read-modify-write (single-threaded harness)'])
