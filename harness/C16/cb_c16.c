/* C16: hashing agrees with equality; the six operators agree with lexicographic comparison of the member tuple.
 * modes: MODE_OPS   two symbolic values of P = (int, unsigned char, long, string<=SL bytes): operators vs reference, equal => equal hash
 *        MODE_TRANS three symbolic values: transitivity of <, trichotomy
 *        MODE_SENS  sensitivity: per component an existential witness (must be reachable), last component injective (universal),
 *                   order sensitivity, pair / nested / variant / smart pointers consistent with the pointee / alternative
 */
#include "vharness.h"
#include "all.h"
#ifndef SL
#define SL 1
#endif
struct pval { i32 a; u8 b; i64 c; const u8* s; u32 sl; };
/* deterministic byte hash standing in for libstdc++'s _Hash_bytes behind std::hash<std::string> (only determinism matters for the universal claims) */
#ifndef NATIVE_REAL
/* (the g++ build links the real one from libstdc++) std::hash<float/double> (real libstdc++ header code) calls the out-of-line std::_Hash_bytes(ptr, len, seed): modelled by a deterministic,
 * multiplication-free byte mix (only determinism matters for "equal => equal"; sensitivity is an existential witness) */
u64 _ZSt11_Hash_bytesPKvmm(u8* p, u64 n, u64 seed) { u64 h = seed; for (u64 i = 0; i < n; ++i) h = ((h << 5) | (h >> 59)) ^ p[i]; return h; }
#endif
u64 __vstd_hash_bytes(u8* p, u64 n) { u64 h = 1469598103934665603ULL ^ n; for (u64 i = 0; i < n; ++i) h = ((h << 7) | (h >> 57)) ^ p[i]; return h; }   /* multiplication-free: SAT-friendly */

static void in_p(struct pval* v, u8* buf)
{
    v->a = (i32)in_u32(); v->b = in_u8(); v->c = (i64)(((u64)in_u32() << 32) | in_u32());
    u32 l = in_range(0, SL); for (u32 i = 0; i < SL; ++i) buf[i] = in_ch(); buf[SL] = 0; v->s = buf; v->sl = l;
}
/* lexicographic three-way comparison of the member tuples: -1, 0, 1 */
static int ref_cmp(const struct pval* x, const struct pval* y)
{
    if (x->a != y->a) return x->a < y->a ? -1 : 1;
    if (x->b != y->b) return x->b < y->b ? -1 : 1;
    if (x->c != y->c) return x->c < y->c ? -1 : 1;
    u32 n = x->sl < y->sl ? x->sl : y->sl;
    for (u32 i = 0; i < n; ++i) if (x->s[i] != y->s[i]) return x->s[i] < y->s[i] ? -1 : 1;   /* std::string compares bytes as unsigned char */
    if (x->sl != y->sl) return x->sl < y->sl ? -1 : 1;
    return 0;
}
static u32 ref_ops(int c) { return (c == 0 ? 1u : 0u) | (c != 0 ? 2u : 0u) | (c < 0 ? 4u : 0u) | (c > 0 ? 8u : 0u) | (c <= 0 ? 16u : 0u) | (c >= 0 ? 32u : 0u); }

int main(void)
{
    ir2c_global_ctors();
#if defined(MODE_OPS)
    struct pval x, y; u8 bx[SL + 1], by[SL + 1]; in_p(&x, bx); in_p(&y, by);
    int c = ref_cmp(&x, &y);
    u32 got = k_ops((void*)&x, (void*)&y);
    CHECK(got == ref_ops(c), "C16: the six comparison operators agree with lexicographic comparison of the member tuple");
    u64 hx = k_hash_p((void*)&x), hy = k_hash_p((void*)&y);
    CHECK(c != 0 || hx == hy, "C16: equal values hash equal");
    CHECK(k_hash_p_wrapper((void*)&x) == hx, "C16: hash_wrapper<T> is the same function as hash");
    WITNESS_AT(c == 0, "equal pair");
    WITNESS_AT(c < 0 && x.a == y.a && x.b == y.b, "pair ordered by a later component");
    WITNESS_AT(hx != hy, "different hashes");
    OBS("ops=%u c=%d eqh=%d\n", got, c, hx == hy);
#elif defined(MODE_CONT)
    /* the value <-> hash <-> container-functor coherence behind "hash containers find every inserted key and only those" */
    struct pval x, y; u8 bx[SL + 1], by[SL + 1]; in_p(&x, bx); in_p(&y, by);
    int c = ref_cmp(&x, &y);
    u64 hx = k_hash_p((void*)&x);
#ifdef CONT_CHANGE
    u64 hy = k_hash_p((void*)&y);
    u64 h_first = 0, h_changed = k_hash_p_after_change((void*)&x, (void*)&y, &h_first);
    CHECK(h_first == hx && h_changed == hy, "C16: the hash is a function of the current value (an object hashed, changed and hashed again hashes like a fresh object of the new value; so does a copy of it)");
#else
    u32 ce = k_container_eq((void*)&x, (void*)&y);
    CHECK(ce == (c == 0 ? 3u : 0u), "C16: the key equality nitro::lang::unordered_set / unordered_map hand to the hash container is equality of the values (containers find every inserted key and ONLY those)");
    CHECK(k_container_hash((void*)&x, 0) == hx && k_container_hash((void*)&x, 1) == hx, "C16: the hasher of nitro::lang::unordered_set / unordered_map is nitro::lang::hash");
#endif
    WITNESS_AT(c == 0, "equal pair");
    WITNESS_AT(c != 0, "different pair");
    OBS("c=%d\n", c);
#elif defined(MODE_TRANS)
    struct pval x, y, z; u8 bx[SL + 1], by[SL + 1], bz[SL + 1]; in_p(&x, bx); in_p(&y, by); in_p(&z, bz);
    u32 xy = k_ops((void*)&x, (void*)&y), yz = k_ops((void*)&y, (void*)&z), xz = k_ops((void*)&x, (void*)&z);
    CHECK(((xy & 4) != 0) + ((xy & 1) != 0) + ((xy & 8) != 0) == 1, "C16: exactly one of <, ==, > holds");
    CHECK(!((xy & 4) && (yz & 4)) || (xz & 4), "C16: < is transitive");
    CHECK(!((xy & 1) && (yz & 1)) || (xz & 1), "C16: == is transitive");
    CHECK(!((xy & 16) && (yz & 16)) || (xz & 16), "C16: <= is transitive");
    WITNESS_AT((xy & 4) && (yz & 4), "chain x < y < z");
    OBS("xy=%u yz=%u xz=%u\n", xy, yz, xz);
#elif defined(MODE_SENS)
    i32 a = (i32)in_u32(), b = (i32)in_u32(), c2 = (i32)in_u32(), a2 = (i32)in_u32(), b2 = (i32)in_u32(), d2 = (i32)in_u32();
    u8 ub = in_u8(), ub2 = in_u8(); i64 l = (i64)(((u64)in_u32() << 32) | in_u32()), l2 = (i64)(((u64)in_u32() << 32) | in_u32());
    /* universal: the combined hash is injective in the LAST component for fixed earlier ones */
    CHECK(k_hash_t2(a, b) != k_hash_t2(a, b2) || b == b2, "C16: the tuple hash depends on the last component (injective for fixed earlier components)");
    CHECK(k_hash_t3(a, ub, (u64)l) != k_hash_t3(a, ub, (u64)l2) || l == l2, "C16: 3-tuple hash depends on the last component");
    CHECK(k_hash_pair(a, (u64)l) != k_hash_pair(a, (u64)l2) || l == l2, "C16: pair hash depends on the second member");
    CHECK(k_hash_nested(a, b, c2) != k_hash_nested(a, b, d2) || c2 == d2, "C16: nested tuple hash depends on the last component");
    /* equal => equal, through every wrapper */
    CHECK(k_hash_uptr(a) == k_hash_int(a) && k_hash_sptr(a) == k_hash_int(a), "C16: smart pointers hash like their pointee (equal pointees hash equal)");
    CHECK(k_hash_variant(0, (u64)(i64)a) == k_hash_variant(0, (u64)(i64)a), "C16: variant hash is a function of the value");
    CHECK(k_hash_tuple_of_ptr(a, b) == k_hash_t2(a, b), "C16: tuple containing a smart pointer hashes like the tuple of pointees");
    CHECK(k_hash_variant(1, (u64)l) != k_hash_variant(1, (u64)l2) || l == l2, "C16: variant hash depends on the held value");
    /* existential (the witness MUST be reachable; an unreachable one means the hash ignores that component / the order) */
    WITNESS_AT(a != a2 && k_hash_t2(a, b) != k_hash_t2(a2, b), "hash depends on component 0 of a 2-tuple");
    WITNESS_AT(ub != ub2 && k_hash_t3(a, ub, (u64)l) != k_hash_t3(a, ub2, (u64)l), "hash depends on the middle component of a 3-tuple");
    WITNESS_AT(a != a2 && k_hash_t3(a, ub, (u64)l) != k_hash_t3(a2, ub, (u64)l), "hash depends on component 0 of a 3-tuple");
    WITNESS_AT(a != a2 && k_hash_pair(a, (u64)l) != k_hash_pair(a2, (u64)l), "pair hash depends on the first member");
    WITNESS_AT(b != b2 && k_hash_nested(a, b, c2) != k_hash_nested(a, b2, c2), "nested hash depends on the inner pair's second member");
    WITNESS_AT(a != b && k_hash_t2(a, b) != k_hash_t2(b, a), "hash depends on component order");
    WITNESS_AT(a != a2 && k_hash_uptr(a) != k_hash_uptr(a2), "pointer hash depends on the pointee");
    OBS("t2=%lu t3=%lu pair=%lu nested=%lu var=%lu up=%lu sp=%lu\n", (unsigned long)k_hash_t2(a, b), (unsigned long)k_hash_t3(a, ub, (u64)l), (unsigned long)k_hash_pair(a, (u64)l),
        (unsigned long)k_hash_nested(a, b, c2), (unsigned long)k_hash_variant(1, (u64)l), (unsigned long)k_hash_uptr(a), (unsigned long)k_hash_sptr(a));
#elif defined(MODE_FP)
    /* every double / float bit pattern (signed zeros, subnormals, infinities; NaN excluded: it compares unequal to itself, so "equal
     * values" never contains one and the member-tuple order is not a total order on it) */
    double d1 = ir2c_bits_u64_to_double(((u64)in_u32() << 32) | in_u32()), d2 = ir2c_bits_u64_to_double(((u64)in_u32() << 32) | in_u32());
    float f1 = ir2c_bits_u32_to_float(in_u32()), f2 = ir2c_bits_u32_to_float(in_u32());
    i32 a1 = (i32)in_u32(), a2 = (i32)in_u32();
    ASSUME(d1 == d1 && d2 == d2 && f1 == f1 && f2 == f2);
    int c = d1 != d2 ? (d1 < d2 ? -1 : 1) : a1 != a2 ? (a1 < a2 ? -1 : 1) : f1 != f2 ? (f1 < f2 ? -1 : 1) : 0;
    CHECK(k_ops_q(d1, a1, f1, d2, a2, f2) == ref_ops(c), "C16: the six comparison operators agree with lexicographic comparison of the member tuple (floating-point members)");
    CHECK(c != 0 || k_hash_q(d1, a1, f1) == k_hash_q(d2, a2, f2), "C16: equal values hash equal (floating-point members, +0.0 == -0.0)");
    CHECK(d1 != d2 || k_hash_td(a1, d1) == k_hash_td(a1, d2), "C16: equal tuples hash equal (tuple<int,double>)");
    CHECK(d1 != d2 || k_hash_pd(d1, a1) == k_hash_pd(d2, a1), "C16: equal pairs hash equal (pair<double,int>)");
    CHECK(d1 != d2 || k_hash_vd(d1) == k_hash_vd(d2), "C16: equal variants hash equal (variant<int,double>)");
    CHECK(f1 != f2 || k_hash_f(f1) == k_hash_f(f2), "C16: equal floats hash equal");
    WITNESS_AT(c == 0 && ir2c_bits_double_to_u64(d1) != ir2c_bits_double_to_u64(d2), "equal values with different zero signs");
    WITNESS_AT(c == 0 && d1 != 0.0, "equal non-zero values");
    WITNESS_AT(c < 0 && d1 == d2 && a1 == a2, "ordered by the float member");
    WITNESS_AT(k_hash_td(a1, d1) != k_hash_td(a1, d2), "tuple hash depends on the double component");
    OBS("ops=%u c=%d\n", k_ops_q(d1, a1, f1, d2, a2, f2), c);
#else
#error "no MODE"
#endif
    HARNESS_END();
}
