// C06/C07 harness: one fixed_vector built from a symbolic state, then operations chosen by the caller.
// Element types: int (values), Tracked (instance counting, optional throwing copy/move), unique_ptr<int> (move-only).
#include <memory>
#include <vector>
#include <nitro/lang/fixed_vector.hpp>
#include <nitro/lang/reverse.hpp>

extern "C" {
struct fv_view
{
    int status;              // 0 = operation returned, 1 = it raised
    unsigned long size, cap;
    int v[6];                // contents via operator[] (first 6)
    int fwd[6];              // contents via begin()..end()
    unsigned long nfwd;
    int rev[6];              // contents via rbegin()..rend()
    unsigned long nrev;
    int got;                 // value returned by at()/get
    int data_ok;             // data() == &v[0] (or capacity 0)
    int iter_ok;             // begin/end/cbegin/cend consistent with data()/size()
};
int fv_int_step(unsigned cap, unsigned n0, const int* init, unsigned pre_pop, int op, int arg, int arg2, unsigned idx,
                struct fv_view* before, struct fv_view* after, struct fv_view* other);
int fv_int_seq(unsigned cap, unsigned nops, const int* ops, const int* args, const unsigned* idxs, struct fv_view* views);
// Tracked element type
int fv_tracked_step(unsigned cap, unsigned n0, unsigned pre_pop, int op, unsigned idx, int throw_after,
                    long* live_after_destroy, long* double_destroy, unsigned long* size_before, unsigned long* size_after,
                    int* contents_unchanged);
int fv_uptr_step(unsigned cap, unsigned n0, int op, unsigned idx, unsigned long* size_after, int* vals);
}

using nitro::lang::fixed_vector;

static void view(fixed_vector<int>& v, struct fv_view* o)
{
    o->size = v.size();
    o->cap = v.capacity();
    for (unsigned i = 0; i < v.size() && i < 6; ++i)
        o->v[i] = v[i];
    o->nfwd = 0;
    for (auto it = v.begin(); it != v.end() && o->nfwd < 6; ++it)
        o->fwd[o->nfwd++] = *it;
    o->nrev = 0;
    if (v.capacity() > 0)
    {
        for (auto it = v.rbegin(); it != v.rend() && o->nrev < 6; ++it)
            o->rev[o->nrev++] = *it;
    }
    o->data_ok = v.capacity() == 0 || v.data() == &v[0];
    const fixed_vector<int>& c = v;
    o->iter_ok = v.begin() == v.data() && v.end() == v.data() + v.size() && c.begin() == c.data() &&
                 c.end() == c.data() + c.size() && c.cbegin() == c.data() && c.cend() == c.data() + c.size();
}

static void build(fixed_vector<int>& v, unsigned n0, const int* init, unsigned pre_pop)
{
    for (unsigned i = 0; i < n0; ++i)
        v.emplace_back(init[i]);
    for (unsigned i = 0; i < pre_pop; ++i)
        v.pop_back(); // leaves stale values in the slots above size()
}

enum
{
    OP_EMPLACE_BACK = 0,
    OP_POP_BACK,
    OP_ERASE,
    OP_AT,
    OP_AT_CONST,
    OP_INSERT_RV,
    OP_INSERT_LV,
    OP_PUSH_BACK,
    OP_EMPLACE_POS,
    OP_PUSH_RANGE2,
    OP_GET0,
    OP_GET1,
    OP_COPY_CTOR,
    OP_MOVE_CTOR,
    OP_COPY_ASSIGN,
    OP_MOVE_ASSIGN,
    OP_LIST_ASSIGN,
    OP_CTOR_ITERABLE,
    OP_INDEX_WRITE,
    OP_USE_MOVED_FROM,
    OP_REVERSE_ADAPTOR,
    OP_EMPLACE_POS_ALIAS
};

static void apply(fixed_vector<int>& v, int op, int arg, int arg2, unsigned idx, struct fv_view* after,
                  struct fv_view* other)
{
    switch (op)
    {
    case OP_EMPLACE_BACK:
        v.emplace_back(arg);
        break;
    case OP_POP_BACK:
        v.pop_back();
        break;
    case OP_ERASE:
        v.erase(v.begin() + idx);
        break;
    case OP_AT:
        after->got = v.at(idx);
        break;
    case OP_AT_CONST:
    {
        const fixed_vector<int>& c = v;
        after->got = c.at(idx);
        break;
    }
    case OP_INSERT_RV:
        v.insert(int(arg));
        break;
    case OP_INSERT_LV:
    {
#ifndef NO_INSERT_LV
        const int& lv = arg;
        v.insert(lv); // appending an lvalue must compile and append
#endif
        break;
    }
    case OP_PUSH_BACK:
        v.push_back(arg);
        break;
    case OP_EMPLACE_POS:
        v.emplace(v.begin() + idx, arg);
        break;
    case OP_PUSH_RANGE2:
    {
        int two[2] = { arg, arg2 };
        v.push_back(&two[0], &two[0] + 2);
        break;
    }
    case OP_GET0:
        after->got = std::get<0>(v);
        break;
    case OP_GET1:
        after->got = std::get<1>(v);
        break;
    case OP_COPY_CTOR:
    {
        fixed_vector<int> w(v);
        if (w.size() > 0)
            w[0] = arg; // independence: must not show in v
        view(w, other);
        break;
    }
    case OP_MOVE_CTOR:
    {
        fixed_vector<int> w(std::move(v));
        view(w, other);
        break;
    }
    case OP_COPY_ASSIGN:
    {
        fixed_vector<int> w(2);
        w.emplace_back(arg2);
        w = v;
        if (w.size() > 0)
            w[0] = arg;
        view(w, other);
        break;
    }
    case OP_MOVE_ASSIGN:
    {
        fixed_vector<int> w(2);
        w.emplace_back(arg2);
        w = std::move(v);
        view(w, other);
        break;
    }
    case OP_LIST_ASSIGN:
    {
        v = { arg, arg2 };
        break;
    }
    case OP_CTOR_ITERABLE:
    {
        std::vector<int> src;
        src.push_back(arg);
        src.push_back(arg2);
        fixed_vector<int> w(idx, src); // capacity idx, two elements: must raise when idx < 2
        view(w, other);
        break;
    }
    case OP_INDEX_WRITE:
        v[idx] = arg; // caller guarantees idx < size
        break;
    case OP_USE_MOVED_FROM:
    {
        fixed_vector<int> w(std::move(v));
        view(w, other);
        v.emplace_back(arg); // a moved-from container must stay inside its own storage
        break;
    }
    case OP_EMPLACE_POS_ALIAS:
        // the constructor argument is an element of the same container (a reference that a shift may overwrite)
        v.emplace(v.begin() + idx, v[static_cast<unsigned>(arg2) % (v.size() ? v.size() : 1)]);
        break;
    case OP_REVERSE_ADAPTOR:
    {
        other->nrev = 0;
        for (auto& x : nitro::lang::reverse(v))
        {
            if (other->nrev < 6)
                other->rev[other->nrev++] = x;
        }
        break;
    }
    }
}

int fv_int_step(unsigned cap, unsigned n0, const int* init, unsigned pre_pop, int op, int arg, int arg2, unsigned idx,
                struct fv_view* before, struct fv_view* after, struct fv_view* other)
{
    fixed_vector<int> v(cap);
    build(v, n0, init, pre_pop);
    view(v, before);
    after->status = 0;
    try
    {
        apply(v, op, arg, arg2, idx, after, other);
    }
    catch (...)
    {
        after->status = 1;
    }
    view(v, after);
    return after->status;
}

int fv_int_seq(unsigned cap, unsigned nops, const int* ops, const int* args, const unsigned* idxs, struct fv_view* views)
{
    fixed_vector<int> v(cap);
    for (unsigned k = 0; k < nops; ++k)
    {
        struct fv_view other;
        views[k].status = 0;
        try
        {
            apply(v, ops[k], args[k], 0, idxs[k], &views[k], &other);
        }
        catch (...)
        {
            views[k].status = 1;
        }
        view(v, &views[k]);
    }
    return 0;
}

// ---- instance-counting element type -------------------------------------------------------------
namespace
{
long g_live, g_double, g_countdown; // g_countdown > 0: the g_countdown-th copy/move from now throws
int g_ctor_throws;                   // the value constructor Tracked(int) throws
struct Boom
{
};
struct Tracked
{
    int alive;
    int val;
    static void tick()
    {
        if (g_countdown > 0 && --g_countdown == 0)
            throw Boom();
    }
    Tracked() : alive(1), val(0)
    {
        ++g_live;
    }
    explicit Tracked(int v) : alive(1), val(v)
    {
        if (g_ctor_throws)
            throw Boom(); // constructing the new element itself may throw, too
        ++g_live;
    }
    Tracked(const Tracked& o) : alive(1), val(o.val)
    {
        tick();
        ++g_live;
    }
    Tracked(Tracked&& o) : alive(1), val(o.val)
    {
        tick();
        ++g_live;
    }
    Tracked& operator=(const Tracked& o)
    {
        tick();
        val = o.val;
        return *this;
    }
    Tracked& operator=(Tracked&& o)
    {
        tick();
        val = o.val;
        return *this;
    }
    ~Tracked()
    {
        if (!alive)
            ++g_double;
        alive = 0;
        --g_live;
    }
};
} // namespace

int fv_tracked_step(unsigned cap, unsigned n0, unsigned pre_pop, int op, unsigned idx, int throw_after,
                    long* live_after_destroy, long* double_destroy, unsigned long* size_before, unsigned long* size_after,
                    int* contents_unchanged)
{
    g_live = 0;
    g_double = 0;
    g_countdown = 0;
    g_ctor_throws = 0;
    int status = 0;
    {
        fixed_vector<Tracked> v(cap);
        for (unsigned i = 0; i < n0; ++i)
            v.emplace_back(static_cast<int>(10 + i));
        for (unsigned i = 0; i < pre_pop; ++i)
            v.pop_back();
        *size_before = v.size();
        g_countdown = throw_after;
        try
        {
            switch (op)
            {
            case 0:
                v.emplace_back(77);
                break;
            case 1:
            {
                Tracked t(78);
                v.push_back(t);
                break;
            }
            case 2:
                v.erase(v.begin() + idx);
                break;
            case 3:
                v.emplace(v.begin() + idx, 79);
                break;
            case 4:
            {
                fixed_vector<Tracked> w(v);
                break;
            }
            case 5:
            {
                fixed_vector<Tracked> w(std::move(v));
                break;
            }
            case 6:
            {
                fixed_vector<Tracked> w(1);
                w = v;
                break;
            }
            case 7:
            {
                fixed_vector<Tracked> w(1);
                w = std::move(v);
                break;
            }
            case 8:
                v.pop_back();
                break;
            case 9:
            {
                Tracked t(80);
                v.insert(std::move(t));
                break;
            }
            case 10: // positional emplace whose element constructor throws
                g_ctor_throws = 1;
                v.emplace(v.begin() + idx, 81);
                break;
            case 11: // emplace_back whose element constructor throws
                g_ctor_throws = 1;
                v.emplace_back(82);
                break;
            }
        }
        catch (...)
        {
            status = 1;
        }
        g_countdown = 0;
        g_ctor_throws = 0;
        *size_after = v.size();
        *contents_unchanged = 1;
        if (v.size() == *size_before)
            for (unsigned i = 0; i < v.size(); ++i)
                if (v[i].val != static_cast<int>(10 + i))
                    *contents_unchanged = 0;
    }
    *live_after_destroy = g_live;
    *double_destroy = g_double;
    return status;
}

int fv_uptr_step(unsigned cap, unsigned n0, int op, unsigned idx, unsigned long* size_after, int* vals)
{
    int status = 0;
    fixed_vector<std::unique_ptr<int>> v(cap);
    try
    {
        for (unsigned i = 0; i < n0; ++i)
            v.insert(std::make_unique<int>(static_cast<int>(20 + i)));
        switch (op)
        {
        case 0:
            v.insert(std::make_unique<int>(55));
            break;
        case 1:
            v.erase(v.begin() + idx);
            break;
        case 2:
            v.pop_back();
            break;
        case 3:
        {
            fixed_vector<std::unique_ptr<int>> w(std::move(v));
            *size_after = w.size();
            for (unsigned i = 0; i < w.size() && i < 4; ++i)
                vals[i] = w[i] ? *w[i] : -1;
            return 2;
        }
        }
    }
    catch (...)
    {
        status = 1;
    }
    *size_after = v.size();
    for (unsigned i = 0; i < v.size() && i < 4; ++i)
        vals[i] = v[i] ? *v[i] : -1;
    return status;
}
