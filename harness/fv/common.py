import os, sys
sys.path.insert(0, os.path.join(os.path.dirname(__file__), '..', '..', 'tools'))
from vlib import Unit, Query, Runner  # noqa: E402

OPS = ['EMPLACE_BACK', 'POP_BACK', 'ERASE', 'AT', 'AT_CONST', 'INSERT_RV', 'INSERT_LV', 'PUSH_BACK', 'EMPLACE_POS', 'PUSH_RANGE2', 'GET0', 'GET1',
       'COPY_CTOR', 'MOVE_CTOR', 'COPY_ASSIGN', 'MOVE_ASSIGN', 'LIST_ASSIGN', 'CTOR_ITERABLE', 'INDEX_WRITE', 'USE_MOVED_FROM', 'REVERSE_ADAPTOR', 'EMPLACE_POS_ALIAS']
NEVER_RAISES = {'COPY_CTOR', 'MOVE_CTOR', 'COPY_ASSIGN', 'MOVE_ASSIGN', 'LIST_ASSIGN', 'INDEX_WRITE', 'REVERSE_ADAPTOR'}
TRACKED_OPS = {0: 'emplace_back', 1: 'push_back(const&)', 2: 'erase', 3: 'emplace(pos)', 4: 'copy-construct', 5: 'move-construct', 6: 'copy-assign',
               7: 'move-assign', 8: 'pop_back', 9: 'insert(&&)', 10: 'emplace(pos) with a throwing element constructor', 11: 'emplace_back with a throwing element constructor'}


def step_profile(capmax):
    out = []
    for cap, n0, pre, idx in ((capmax, capmax, 1, 1), (capmax, capmax, 0, capmax), (capmax, 2, 0, 0), (0, 0, 0, 0), (1, 1, 0, 1), (capmax, 1, 1, 0), (2, 2, 0, 2), (capmax, capmax - 1, 0, capmax - 1)):
        out.append([cap, n0, pre] + [5, 7, 9, 11, 13][:capmax] + [42, 43, idx])
    return out


def fv_unit(prop, tier):
    th = tier == 'thorough'
    capmax = 4 if th else 3
    c07 = ['-DPROP_C07'] if prop == 'C07' else []
    qs = []
    for i, op in enumerate(OPS):
        w = ['operation returns', 'state: stale slot above size', 'state: full vector']
        if op not in NEVER_RAISES and op != 'USE_MOVED_FROM':
            w.append('operation raises')
        qs.append(Query('step_' + op.lower(), ['-DMODE_STEP', '-DOP=%d' % i, '-DCAPMAX=%d' % capmax] + c07, w, unwind=2, hardcap=capmax + 10, est_gb=2,
                        profile=[v for v in step_profile(capmax) if (op != 'INDEX_WRITE' or v[-1] < v[1] - v[2]) and (op != 'EMPLACE_POS_ALIAS' or v[1] - v[2] >= 1)],
                        sample={'mode': 'one operation from an arbitrary reachable state', 'operation': op, 'capacity': '0..%d' % capmax,
                                'state': 'n0 <= capacity appended symbolic ints, 0..1 pops (stale slot), symbolic arguments, index 0..capacity+2'}))
    import itertools, random
    SEQN = ['emplace_back', 'pop_back', 'erase', 'emplace_pos', 'insert_rv', 'push_back', 'index_write']
    seqs = [p_ for p_ in itertools.product(range(7), repeat=2)]
    triples = [p_ for p_ in itertools.product(range(7), repeat=3)]
    if th:
        seqs += triples
        rnd = random.Random(int(os.environ.get('VERIF_SEED', '0') or 0))
        seqs += rnd.sample([p_ for p_ in itertools.product(range(7), repeat=4)], 120)
    else:
        rnd = random.Random(int(os.environ.get('VERIF_SEED', '0') or 0))
        seqs += rnd.sample(triples, 24)
    scap = 3 if th else 2
    for sq in seqs:
        n = len(sq)
        qs.append(Query('seq_' + ''.join(str(x) for x in sq), ['-DMODE_SEQ', '-DNOPS=%d' % n, '-DSEQ_OPS={%s}' % ','.join(str(x) for x in sq), '-DCAPMAX=%d' % scap] + c07,
                        [], unwind=2, hardcap=14, est_gb=2,
                        profile=[[scap] + [0, 5, 1, 7, 0, 9, 2, 3][:2 * n], [1] + [1, 5, 0, 7, 1, 9, 0, 2][:2 * n], [0] + [0, 1] * n, [scap] + [2, 4, 0, 6, 1, 8, 3, 1][:2 * n]],
                        sample={'mode': 'sequence from the empty vector, reference compared after every step', 'operations': [SEQN[x] for x in sq],
                                'capacity': '0..%d symbolic' % scap, 'arguments_indices': 'symbolic'}))
    if prop == 'C06':
        for op, nm in TRACKED_OPS.items():
            w = ['operation returns'] + (['an element copy/move threw in the middle of the operation'] if op not in (5, 7, 8, 10, 11) else [])
            qs.append(Query('tracked_' + nm.replace('(', '_').replace(')', '').replace('&', 'ref').replace('-', '_').replace(' ', '_'),
                            ['-DMODE_TRACKED', '-DTOP=%d' % op, '-DTHRMAX=%d' % (5 if th else 4), '-DCAPMAX=%d' % capmax], w, unwind=2, hardcap=capmax + 10, est_gb=3,
                            profile=[[capmax, capmax, 1, 1, 0], [capmax, capmax, 0, 0, 2], [capmax, 2, 0, 1, 1], [0, 0, 0, 0, 0], [1, 1, 0, 0, 3], [capmax, capmax - 1, 0, 0, 4], [2, 2, 1, 0, 0]],
                            sample={'mode': 'instance-counting element type; the k-th element copy/move of the operation throws (k symbolic, 0 = never)', 'operation': nm}))
    for uop, nm in enumerate(('insert_rv', 'erase', 'pop_back', 'move_ctor')):
        qs.append(Query('uptr_' + nm, ['-DMODE_UPTR', '-DUOP=%d' % uop, '-DCAPMAX=%d' % capmax] + c07, ['move-only vector with elements'], unwind=2, hardcap=capmax + 10, est_gb=4,
                        profile=[[capmax, capmax, 0], [capmax, 2, 0], [capmax, capmax, 1], [capmax, capmax, capmax], [2, 2, 1], [0, 0, 0], [1, 0, 0], [capmax, capmax - 1, 0]],
                        sample={'mode': 'move-only element type unique_ptr<int>', 'operation': nm}))
    # differential corpus: the repo's fixed_vector_test.cpp shapes (emplace_back x2 + erase front, at(1), ...) + boundaries
    S = ['-DMODE_STEP', '-DCAPMAX=%d' % capmax] + c07
    corpus = []
    for i, op in enumerate(OPS):
        d = S + ['-DOP=%d' % i]
        # vin: cap n0 pre init[capmax] arg arg2 idx
        for cap, n0, pre, idx in ((3, 2, 0, 0), (3, 3, 0, 3), (2, 2, 1, 1), (0, 0, 0, 0), (1, 1, 0, 1), (3, 2, 0, 2), (3, 3, 0, 0), (3, 3, 0, 1)):
            if op == 'INDEX_WRITE' and not idx < n0 - pre:
                continue
            if op == 'EMPLACE_POS_ALIAS' and n0 - pre < 1:
                continue
            corpus.append((d, [cap, n0, pre] + [5, 700, 90000, 11][:capmax] + [42, 43, idx]))      # values that differ above their lowest byte
    for sq, v in (((0, 0, 2), [2, 0, 5, 0, 7, 0, 0]), ((0, 3, 1), [2, 0, 5, 0, 7, 0, 0]), ((5, 6), [1, 0, 5, 0, 9]), ((1, 0), [0, 0, 0, 0, 1])):
        corpus.append((['-DMODE_SEQ', '-DNOPS=%d' % len(sq), '-DSEQ_OPS={%s}' % ','.join(str(x) for x in sq), '-DCAPMAX=%d' % scap] + c07, v))
    if prop == 'C06':
        for op in TRACKED_OPS:
            d = ['-DMODE_TRACKED', '-DTOP=%d' % op, '-DTHRMAX=%d' % (5 if th else 4), '-DCAPMAX=%d' % capmax]
            corpus += [(d, [3, 2, 0, 0, 0]), (d, [3, 3, 1, 1, 1]), (d, [2, 2, 0, 0, 2]), (d, [0, 0, 0, 0, 0])]
    corpus += [(['-DMODE_UPTR', '-DUOP=%d' % uop, '-DCAPMAX=%d' % capmax] + c07, v) for uop in range(4) for v in ([2, 2, 0], [2, 1, 0], [3, 2, 1], [0, 0, 0])]
    return Unit('fixed_vector', 'harness/fv/h_fv.cpp', 'harness/fv/cb_fv.c', caps={'str': 8, 'vec': 4, 'ss': 8}, cxx_defs=['-DNITRO_VERIF_NO_MESSAGES'] + (['-DNO_INSERT_LV'] if os.environ.get('FV_NO_INSERT_LV') else []),
                queries=qs, corpus=corpus)


BOUNDS = {'capacity': '0..3 (quick) / 0..4 (thorough), symbolic', 'history': 'capacity + up to capacity appends + 0..1 pops, then ONE operation; or 3 (thorough: 4) symbolic operations from empty',
          'values_arguments_indices': 'symbolic; index 0..capacity+2', 'element_types': 'int, instance-counting Tracked with throwing copy/move, unique_ptr<int>'}
OUTSIDE = ['capacities above the bound (the code has no capacity-dependent branch other than the comparisons exercised)', 'histories longer than build + one stale-making pop + one operation / 4 operations from empty',
           'the overwriting range insert(pos, first, last) in the middle of the vector (the statements only fix append semantics)', 'allocation failure']
ASSUMP = ['std::unique_ptr<T[]> / make_unique<T[]> are the real libstdc++ headers (in the IR); CBMC knows the exact extent of the array object, so its pointer/bounds checks play the role of ASan',
          'exception message formatting skipped (hook)']
