/* cb_fv.c -- C06 (stays inside its storage, raises when unsatisfiable, no leak/double destroy) and
 *            C07 (behaves as a bounded sequence) for nitro::lang::fixed_vector.
 * modes (-D): MODE_STEP  one operation (-DOP=<k>, or symbolic among the six basic ones with -DOP_BASIC) from an arbitrary
 *                        reachable state: capacity 0..CAPMAX, n0 <= cap appended values, PRE_POP pops (stale slots)
 *             MODE_SEQ   NOPS operations (symbolic choice among the basic ones) from the empty vector, reference compared after every step
 *             MODE_TRACKED  instance-counting element type with a symbolic countdown after which copy/move throws
 *             MODE_UPTR  move-only element type
 */
#include "vharness.h"
#include "all.h"
#ifndef CAPMAX
#define CAPMAX 3
#endif
struct fv_view { i32 status; u64 size, cap; i32 v[6]; i32 fwd[6]; u64 nfwd; i32 rev[6]; u64 nrev; i32 got; i32 data_ok; i32 iter_ok; };
enum { OP_EMPLACE_BACK = 0, OP_POP_BACK, OP_ERASE, OP_AT, OP_AT_CONST, OP_INSERT_RV, OP_INSERT_LV, OP_PUSH_BACK, OP_EMPLACE_POS, OP_PUSH_RANGE2,
       OP_GET0, OP_GET1, OP_COPY_CTOR, OP_MOVE_CTOR, OP_COPY_ASSIGN, OP_MOVE_ASSIGN, OP_LIST_ASSIGN, OP_CTOR_ITERABLE, OP_INDEX_WRITE,
       OP_USE_MOVED_FROM, OP_REVERSE_ADAPTOR, OP_EMPLACE_POS_ALIAS };

/* reference bounded list */
struct ref { u32 n, cap; i32 e[8]; };
static int ref_eq_view(const struct ref* r, const struct fv_view* w)
{
    if (w->size != r->n || w->cap != r->cap) return 0;
    for (u32 i = 0; i < r->n && i < 6; ++i) if (w->v[i] != r->e[i]) return 0;
    return 1;
}
static int view_iter_ok(const struct fv_view* w)
{
    /* forward iteration visits exactly the live elements in order, reverse iteration visits them in reverse order */
    if (w->nfwd != w->size) return 0;
    for (u64 i = 0; i < w->size && i < 6; ++i) if (w->fwd[i] != w->v[i]) return 0;
    return 1;
}
static int view_rev_ok(const struct fv_view* w)
{
    if (w->cap == 0) return 1;
    if (w->nrev != w->size) return 0;
    for (u64 i = 0; i < w->size && i < 6; ++i) if (w->rev[i] != w->v[w->size - 1 - i]) return 0;
    return 1;
}
/* apply an append-family/pop/erase/emplace-at operation to the reference; returns 1 when it must raise */
static int ref_apply(struct ref* r, int op, i32 arg, i32 arg2, u32 idx)
{
    switch (op) {
    case OP_EMPLACE_BACK: case OP_INSERT_RV: case OP_INSERT_LV: case OP_PUSH_BACK:
        if (r->n >= r->cap) return 1;
        r->e[r->n++] = arg; return 0;
    case OP_POP_BACK:
        if (r->n == 0) return 1;
        r->n--; return 0;
    case OP_ERASE:
        if (idx >= r->n) return 1;
        for (u32 i = idx; i + 1 < r->n; ++i) r->e[i] = r->e[i + 1];
        r->n--; return 0;
    case OP_EMPLACE_POS:
        if (idx > r->n || r->n >= r->cap) return 1;
        for (u32 i = r->n; i > idx; --i) r->e[i] = r->e[i - 1];
        r->e[idx] = arg; r->n++; return 0;
    case OP_EMPLACE_POS_ALIAS:
        if (idx > r->n || r->n >= r->cap || r->n == 0) return 1;
        { i32 val = r->e[(u32)arg2 % r->n]; for (u32 i = r->n; i > idx; --i) r->e[i] = r->e[i - 1]; r->e[idx] = val; r->n++; }
        return 0;
    case OP_PUSH_RANGE2:
        if (r->n + 2 > r->cap) return 1;
        r->e[r->n++] = arg; r->e[r->n++] = arg2; return 0;
    case OP_AT: case OP_AT_CONST:
        return idx >= r->n;
    case OP_GET0: return 0 >= r->n;
    case OP_GET1: return 1 >= r->n;
    case OP_INDEX_WRITE:
        r->e[idx] = arg; return 0;
    case OP_LIST_ASSIGN:
        r->cap = 2; r->n = 2; r->e[0] = arg; r->e[1] = arg2; return 0;
    default: return 0;
    }
}

int main(void)
{
    ir2c_global_ctors();
#if defined(MODE_STEP)
    u32 cap = in_range(0, CAPMAX), n0 = in_range(0, CAPMAX), pre = in_range(0, 1);
    ASSUME(n0 <= cap && pre <= n0);
    i32 init[CAPMAX + 1]; for (int i = 0; i < CAPMAX; ++i) init[i] = (i32)in_u32();
    i32 arg = (i32)in_u32(), arg2 = (i32)in_u32();
    u32 idx = in_range(0, CAPMAX + 2);
#ifdef OP_BASIC
    static const int basic[6] = { OP_EMPLACE_BACK, OP_POP_BACK, OP_ERASE, OP_AT, OP_INSERT_RV, OP_PUSH_BACK };
    int op = basic[in_range(0, 5)];
#else
    int op = OP;
#endif
    if (op == OP_INDEX_WRITE) ASSUME(idx < n0 - pre);
    if (op == OP_EMPLACE_POS_ALIAS) ASSUME(n0 - pre >= 1);   /* needs an element to alias */
    if (op == OP_ERASE || op == OP_EMPLACE_POS || op == OP_EMPLACE_POS_ALIAS) ASSUME(idx <= cap);   /* the harness itself must not form a pointer beyond one-past-the-end of the storage */
    struct fv_view before, after, other; memset(&before, 0, sizeof before); memset(&after, 0, sizeof after); memset(&other, 0, sizeof other);
    struct ref r; r.cap = cap; r.n = n0 - pre; for (u32 i = 0; i < r.n; ++i) r.e[i] = init[i];
    struct ref r0 = r;
    fv_int_step(cap, n0, (u32*)init, pre, (u32)op, (u32)arg, (u32)arg2, idx, &before, &after, &other);
    int must_raise = ref_apply(&r, op, arg, arg2, idx);
    if (op == OP_CTOR_ITERABLE) must_raise = idx < 2;
    if (op == OP_USE_MOVED_FROM) must_raise = cap == 0;   /* the moved-from container keeps its capacity and is empty */

    /* ---- C06: inside its storage ---- */
    CHECK(ref_eq_view(&r0, &before) && before.data_ok && before.iter_ok, "C06: the built state shows exactly the appended elements (harness sanity + iterators inside [data, data+size])");
    CHECK(after.size <= after.cap, "C06: size never exceeds capacity");
    CHECK(op == OP_LIST_ASSIGN || op == OP_MOVE_CTOR || op == OP_MOVE_ASSIGN || op == OP_USE_MOVED_FROM || after.cap == cap, "C06: capacity is fixed at construction");
    CHECK((after.status == 1) == (must_raise != 0), "C06: an operation raises exactly when it cannot be satisfied (full, empty, index not below size, range does not fit)");
    if (after.status == 1 && op != OP_PUSH_RANGE2 && op != OP_CTOR_ITERABLE)
        CHECK(ref_eq_view(&r0, &after), "C06: a failed single-element operation leaves the container unchanged");
    CHECK(after.data_ok && after.iter_ok, "C06: begin/end/cbegin/cend stay inside [data, data+size]");
    /* ---- C07: bounded sequence ---- */
#ifdef PROP_C07
    if (after.status == 0 && op != OP_MOVE_CTOR && op != OP_MOVE_ASSIGN && op != OP_USE_MOVED_FROM)
        CHECK(ref_eq_view(&r, &after), "C07: after the operation size/indexing equal the reference sequence");
    if (op != OP_MOVE_CTOR && op != OP_MOVE_ASSIGN && op != OP_USE_MOVED_FROM) {
        CHECK(view_iter_ok(&after), "C07: forward iteration visits exactly the live elements in order");
        CHECK(view_rev_ok(&after), "C07: reverse iteration visits the live elements in reverse order");
    }
    if ((op == OP_AT || op == OP_AT_CONST) && after.status == 0) CHECK(after.got == r0.e[idx], "C07: at(i) returns the i-th element");
    if (op == OP_GET0 && after.status == 0) CHECK(after.got == r0.e[0], "C07: std::get<0> returns the first element");
    if (op == OP_GET1 && after.status == 0) CHECK(after.got == r0.e[1], "C07: std::get<1> returns the second element");
    if (op == OP_COPY_CTOR || op == OP_COPY_ASSIGN) {
        struct ref rc = r0; if (rc.n > 0) rc.e[0] = arg;
        CHECK(after.status == 0 && ref_eq_view(&rc, &other), "C07: copy construction / copy assignment yields an equal container (whose first element the harness then overwrote)");
        CHECK(ref_eq_view(&r0, &after), "C07: the copy is independent: writing to it does not show in the source");
        CHECK(view_iter_ok(&other) && view_rev_ok(&other), "C07: iteration over the copy");
    }
    if (op == OP_MOVE_CTOR || op == OP_MOVE_ASSIGN || op == OP_USE_MOVED_FROM)
        CHECK((after.status == 0 || op == OP_USE_MOVED_FROM) && ref_eq_view(&r0, &other) && view_iter_ok(&other), "C07: move construction / move assignment transfers the whole sequence");
    if (op == OP_USE_MOVED_FROM)
        CHECK(after.size <= after.cap && after.data_ok, "C06: a moved-from container stays inside its own storage when used again");
    if (op == OP_CTOR_ITERABLE && after.status == 0) {
        struct ref ri; ri.cap = idx; ri.n = 2; ri.e[0] = arg; ri.e[1] = arg2;
        CHECK(ref_eq_view(&ri, &other), "C07: construction from (capacity, iterable) holds the iterable's elements in order");
    }
    if (op == OP_REVERSE_ADAPTOR) {
        int ok = other.nrev == r0.n; for (u32 i = 0; ok && i < r0.n && i < 6; ++i) if (other.rev[i] != r0.e[r0.n - 1 - i]) ok = 0;
        CHECK(ok, "C07: for (x : reverse(v)) visits the live elements in reverse order");
    }
#endif
    WITNESS_AT(after.status == 0, "operation returns");
    WITNESS_AT(after.status == 1, "operation raises");
    WITNESS_AT(before.size == before.cap && before.cap > 0, "state: full vector");
    WITNESS_AT(pre == 1, "state: stale slot above size");
    OBS("op=%d st=%d size=%lu cap=%lu got=%d\n", op, after.status, (unsigned long)after.size, (unsigned long)after.cap, after.got);
    for (u64 i = 0; i < after.size && i < 6; ++i) OBS(" v%lu=%d f=%d\n", (unsigned long)i, after.v[i], after.fwd[i]);
    OBS(" other size=%lu cap=%lu nrev=%lu\n", (unsigned long)other.size, (unsigned long)other.cap, (unsigned long)other.nrev);
    for (u64 i = 0; i < other.size && i < 6; ++i) OBS(" o%lu=%d\n", (unsigned long)i, other.v[i]);
#elif defined(MODE_SEQ)
#ifndef NOPS
#define NOPS 3
#endif
    static const int basic[7] = { OP_EMPLACE_BACK, OP_POP_BACK, OP_ERASE, OP_EMPLACE_POS, OP_INSERT_RV, OP_PUSH_BACK, OP_INDEX_WRITE };
    u32 cap = in_range(0, CAPMAX);
    u32 ops[NOPS], idxs[NOPS]; i32 args[NOPS];
    struct ref r; r.cap = cap; r.n = 0;
    struct fv_view views[NOPS]; memset(views, 0, sizeof views);
    int raises[NOPS];
    for (int k = 0; k < NOPS; ++k) {
#ifdef SEQ_OPS
        { static const int chosen[NOPS] = SEQ_OPS; ops[k] = basic[chosen[k]]; }   /* operation kinds enumerated outside the solver */
#else
        ops[k] = basic[in_range(0, 6)];
#endif
        idxs[k] = in_range(0, CAPMAX + 1); args[k] = (i32)in_range(0, 255);
        ASSUME(idxs[k] <= cap);
        if (ops[k] == OP_INDEX_WRITE) ASSUME(idxs[k] < r.n);
        struct ref rb = r;
        raises[k] = ref_apply(&r, ops[k], args[k], 0, idxs[k]);
        if (raises[k]) r = rb;
        /* remember the expected state in the view slot's spare fields: compare after the run */
        views[k].got = (i32)r.n;
        for (u32 i = 0; i < r.n && i < 6; ++i) views[k].rev[i] = r.e[i];
    }
    struct fv_view out[NOPS]; memset(out, 0, sizeof out);
    fv_int_seq(cap, NOPS, ops, (u32*)args, idxs, (void*)out);
    for (int k = 0; k < NOPS; ++k) {
        CHECK((out[k].status == 1) == (raises[k] != 0), "C06: every step raises exactly when it cannot be satisfied");
        int same = out[k].size == (u64)views[k].got && out[k].cap == cap;
        for (u32 i = 0; same && i < (u32)views[k].got && i < 6; ++i) if (out[k].v[i] != views[k].rev[i]) same = 0;
        CHECK(same, "C07: after every step of the sequence the vector equals the reference sequence");
        CHECK(view_iter_ok(&out[k]), "C07: forward iteration after every step");
        CHECK(out[k].size <= out[k].cap && out[k].data_ok && out[k].iter_ok, "C06: inside its storage after every step");
    }
    WITNESS_AT(out[NOPS - 1].size >= 2, "sequence reaches two elements");
    WITNESS_AT(out[NOPS - 1].status == 1, "last step raises");
    OBS("seq cap=%u\n", cap); for (int k = 0; k < NOPS; ++k) OBS(" step%d op=%u st=%d size=%lu v0=%d v1=%d\n", k, ops[k], out[k].status, (unsigned long)out[k].size, out[k].v[0], out[k].v[1]);
#elif defined(MODE_TRACKED)
    u32 cap = in_range(0, CAPMAX), n0 = in_range(0, CAPMAX), pre = in_range(0, 1), idx = in_range(0, CAPMAX + 1);
    ASSUME(n0 <= cap && pre <= n0);
    u32 op = TOP;
    if (op == 2 || op == 3 || op == 10) ASSUME(idx <= cap);   /* the harness itself must not form a pointer beyond one-past-the-end of the storage */
    u32 thr = in_range(0, THRMAX);             /* 0 = never throws, k = the k-th element copy/move of the operation throws */
    i64 live = -1, dbl = -1; u64 sb = 0, sa = 0; i32 unchanged = 0;
    u32 st = fv_tracked_step(cap, n0, pre, op, idx, thr, (u64*)&live, (u64*)&dbl, &sb, &sa, (u32*)&unchanged);
    CHECK(live == 0, "C06: no element object is leaked (constructed == destroyed), also when a copy/move throws in the middle");
    CHECK(dbl == 0, "C06: no element object is destroyed twice");
    CHECK(sa <= cap || op == 5 || op == 7, "C06: size never exceeds capacity");
    if (st == 1 && thr == 0 && (op == 0 || op == 1 || op == 2 || op == 3 || op == 8 || op == 9))
        CHECK(sa == sb && unchanged, "C06: a failed single-element operation leaves the container unchanged");
    if (op == 10 || op == 11)
        CHECK(st == 1 && sa == sb && unchanged, "C06: when constructing the new element throws, emplace / emplace_back fail and leave the container unchanged");
    WITNESS_AT(st == 1 && thr > 0, "an element copy/move threw in the middle of the operation");
    WITNESS_AT(st == 0 || op >= 10, "operation returns");
    OBS("tracked op=%u st=%u live=%ld dbl=%ld sb=%lu sa=%lu unch=%d\n", op, st, (long)live, (long)dbl, (unsigned long)sb, (unsigned long)sa, unchanged);
#elif defined(MODE_UPTR)
    u32 cap = in_range(0, CAPMAX), n0 = in_range(0, CAPMAX), idx = in_range(0, CAPMAX + 1), op = UOP;
    ASSUME(n0 <= cap && idx <= cap);
    u64 sa = 0; i32 vals[4] = { 0, 0, 0, 0 };
    u32 st = fv_uptr_step(cap, n0, op, idx, &sa, (u32*)vals);
    struct ref r; r.cap = cap; r.n = n0; for (u32 i = 0; i < n0; ++i) r.e[i] = 20 + (i32)i;
    int must = 0;
    if (op == 0) must = ref_apply(&r, OP_INSERT_RV, 55, 0, 0);
    else if (op == 1) must = ref_apply(&r, OP_ERASE, 0, 0, idx);
    else if (op == 2) must = ref_apply(&r, OP_POP_BACK, 0, 0, 0);
    CHECK(op == 3 ? st == 2 : (st == 1) == (must != 0), "C06: move-only elements: raises exactly when unsatisfiable");
    int same = sa == r.n; for (u32 i = 0; same && i < r.n && i < 4; ++i) if (vals[i] != r.e[i]) same = 0;
    CHECK(same, "C07: move-only elements: contents equal the reference sequence (moved container owns the whole sequence)");
    WITNESS_AT((st == 0 || st == 2) && sa >= 1, "move-only vector with elements");
    OBS("uptr op=%u st=%u sa=%lu v0=%d v1=%d\n", op, st, (unsigned long)sa, vals[0], vals[1]);
#else
#error "no MODE"
#endif
    HARNESS_END();
}
