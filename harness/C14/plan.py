import os, sys
sys.path.insert(0, os.path.join(os.path.dirname(__file__), '..', 'parser'))
from common import *  # noqa

P = 'C14'
W2 = ('both parses succeed', 'second parse succeeds after a failed first parse', 'second parse fails after a successful first parse')


def plan(tier):
    th = tier == 'thorough'
    H = dict(timeout=3400, est_gb=10)
    qs = [
        Q(P, 1, ['***'], second=['-x'], wit=W2[:1] + W2[2:]),       # a toggle counted in the first call must not be counted in the second
        Q(P, 1, ['***'], second=['--o=v'], wit=W2[:1] + W2[2:]),    # an option given in the first call must not be 'already given'
        Q(P, 1, ['***'], second=['--m=v', 'p'], wit=W2[:1] + W2[2:]),
        Q(P, 1, ['-x', '--o=v', 'p'], second=['***'], wit=W2[:2]),  # and the other way round: any first vector
        Q(P, 2, ['***'], second=['--no-a'], wit=W2[:1] + W2[2:]),
        Q(P, 2, ['--no-a'], second=['***'], wit=W2[:2]),
        Q(P, 3, ['-o', 'v', '--m=w'], second=['****'], wit=W2[1:2]),
        Q(P, 5, ['**'], second=['--o=c', '-t'], env={0: '**', 2: '**'}, wit=W2[:1] + W2[2:]),   # environment-sourced values must not stick either
        Q(P, 5, ['--o=c'], second=['**'], env={0: '**', 1: '**'}, wit=W2[:2]),
        Q(P, 6, ['***'], second=[], wit=W2[:1] + W2[2:]),           # defaults used by the first parse must still be there for the second
        Q(P, 6, [], second=['***'], wit=W2[:2]),
    ]
    if th:
        qs += [Q(P, 1, ['***'], second=['***'], wit=W2, **H), Q(P, 2, ['***'], second=['***'], wit=W2, **H), Q(P, 3, ['***', '**'], second=['-o', 'v', '--m=w'], wit=W2[1:2], **H),
               Q(P, 6, ['***'], second=['***'], wit=W2, **H), Q(P, 12, ['***'], second=['***'], wit=W2, **H), Q(P, 7, ['***'], second=['***'], env={0: '**'}, wit=W2, **H)]
    corpus = [rt_entry(1, t, P, second=s) for t, s in ((['--o', 'v'], ['--o', 'v']), (['-x'], ['-xx']), (['-z'], ['-x']), (['-x'], ['-z']), (['--m=a'], ['--m=b']), (['p'], ['q', 'r']), ([], ['-p=1']))] + \
             [rt_entry(2, t, P, second=s) for t, s in ((['--a'], ['--no-a']), (['--no-a'], ['--a']), (['--o=v'], []), ([], ['--o=v']))] + \
             [rt_entry(5, t, P, second=s, env=e) for t, s, e in (([], [], {0: 'e', 2: 'yes'}), (['--o=c'], [], {0: 'e'}), (['-t'], ['-t'], {2: 'no'}))]
    return Runner(P, tier, [parser_unit('parser', qs, corpus)],
                  bounds=dict(BOUNDS_NOTE, histories='two parse calls on one parser object (first: U templates, second: T templates); the second outcome and every observable is compared with a freshly built identical parser'),
                  outside=OUTSIDE + ['histories of three or more parse calls'], assumptions=ASSUME)
