import os, sys
sys.path.insert(0, os.path.join(os.path.dirname(__file__), '..', 'parser'))
from common import *  # noqa

P = 'C14'
W2 = ('both parses succeed', 'second parse succeeds after a failed first parse', 'second parse fails after a successful first parse')


def plan(tier):
    th = tier == 'thorough'
    qs = [
        Q(P, 1, ['***'], second=['***'], wit=W2),                   # any token, then any token, on one parser
        Q(P, 1, ['-p', '?*'], second=['--o=**'], wit=W2[:1]),       # option given in both calls
        Q(P, 1, ['-**', '**'], second=['-**', '**'], wit=W2, timeout=1800, est_gb=8),
        Q(P, 2, ['***'], second=['***'], wit=W2),                   # reversible toggle with default, option with default
        Q(P, 2, ['--?'], second=['--no-?'], wit=W2),
        Q(P, 3, ['-o', '*', '--m=*'], second=['--m=*', '-o=*', '*'], wit=W2[:1]),
        Q(P, 5, ['**'], second=['**'], env={0: '**', 2: '**'}, wit=W2),   # environment set: env-sourced values must not stick either
        Q(P, 6, ['***'], second=['***'], wit=W2),
    ]
    if th:
        qs += [Q(P, 1, ['***', '***'], second=['***', '***'], wit=W2, timeout=3400, est_gb=10), Q(P, 3, ['***', '**'], second=['***', '**'], wit=W2, timeout=3400, est_gb=10),
               Q(P, 9, ['***', '**'], second=['***'], wit=W2, timeout=3000), Q(P, 12, ['***'], second=['***'], wit=W2), Q(P, 7, ['***'], second=['***'], env={0: '**'}, wit=W2)]
    corpus = [rt_entry(1, t, P, second=s) for t, s in ((['--o', 'v'], ['--o', 'v']), (['-x'], ['-xx']), (['-z'], ['-x']), (['-x'], ['-z']), (['--m=a'], ['--m=b']), (['p'], ['q', 'r']), ([], ['-p=1']))] + \
             [rt_entry(2, t, P, second=s) for t, s in ((['--a'], ['--no-a']), (['--no-a'], ['--a']), (['--o=v'], []), ([], ['--o=v']))] + \
             [rt_entry(5, t, P, second=s, env=e) for t, s, e in (([], [], {0: 'e', 2: 'yes'}), (['--o=c'], [], {0: 'e'}), (['-t'], ['-t'], {2: 'no'}))]
    return Runner(P, tier, [parser_unit('parser', qs, corpus)],
                  bounds=dict(BOUNDS_NOTE, histories='two parse calls on one parser object (first: U templates, second: T templates); the second outcome and every observable is compared with a freshly built identical parser'),
                  outside=OUTSIDE + ['histories of three or more parse calls'], assumptions=ASSUME)
