import os, sys
sys.path.insert(0, os.path.join(os.path.dirname(__file__), '..', 'log'))
from common import *  # noqa


def plan(tier):
    return log_runner('C05', tier)
