// C15 harness: parser::usage() on a few declaration shapes with symbolic one-byte names, written to three kinds of stream;
// io::terminal::format_padded as a unit (wrapping law)
#include <nitro/options/parser.hpp>
#include <nitro/io/terminal.hpp>
#include <iostream>
#include <sstream>
#include <string>

extern "C" {
// cfg: 0 = one toggle with short name; 1 = reversible toggle + option (short, description, env, default) + positionals;
//      3 = option with a 37-character long name + wrapping description, option with an EMPTY default;
//      2 = option in the default group, toggle and multi-option (short, default list) in a second group with description
// target: 0 = fresh string stream, 1 = string stream that already holds `prior` bytes, 2 = non-seekable stream (std::cout model)
// returns length; text (without the prior content) is copied to out
unsigned k_usage(unsigned cfg, char n0, char n1, char n2, unsigned target, unsigned prior, char* out, unsigned cap);
// format_padded(s, text, left_pad, max_width) on a fresh stream
unsigned k_padded(const char* text, unsigned len, int left_pad, int max_width, char* out, unsigned cap);
// the model's cout core (declared in vstd/iostream); natively the harness main supplies a pipe
}

static unsigned put(char* d, unsigned cap, const std::string& s, std::size_t from = 0)
{
    unsigned n = 0;
    for (std::size_t i = from; i < s.size(); ++i, ++n)
        if (n < cap)
            d[n] = s[i];
    return n;
}

static void declare(nitro::options::parser& p, unsigned cfg, char n0, char n1, char n2)
{
    std::string a(1, n0), b(1, n1), c(1, n2);
    if (cfg == 0)
    {
        p.toggle(a).short_name("t");
    }
    else if (cfg == 1)
    {
        p.toggle(a).allow_reverse().default_value(true);
        p.option(b, "d e").short_name("x").env("E").default_value("v");
        p.accept_positionals(2);
    }
    else if (cfg == 3)
    {
        // an entry whose spelling is wider than the description column, with a description that has to wrap,
        // and an option whose declared default is the empty string
        p.option(std::string("a-very-long-option-name-of-36-chars-") + a, "aa bb cc dd ee ff gg hh ii jj kk").short_name("x");
        p.option(b).default_value("");
    }
    else
    {
        p.option(a).optional();
        auto& g = p.group("g2", "desc");
        g.toggle(b, "some words");
        g.multi_option(c).short_name("y").default_value({ "x", "y" });
        // requesting a declaration again must not list it twice
        g.toggle(b);
    }
}

#ifndef __VSTD_MODEL__
#include <cstdio>
#include <unistd.h>
#endif

unsigned k_usage(unsigned cfg, char n0, char n1, char n2, unsigned target, unsigned prior, char* out, unsigned cap)
{
    nitro::options::parser p("a");
    declare(p, cfg, n0, n1, n2);
    if (target == 2)
    {
#ifdef __VSTD_MODEL__
        std::cout.__c->len = 0;
        p.usage(std::cout);
        return put(out, cap, std::string(std::cout.__c->buf, std::cout.__c->len));
#else
        // native: std::cout connected to a pipe is not seekable (tellp() == -1), like a terminal
        int fds[2];
        if (pipe(fds) != 0)
            return 0;
        std::fflush(stdout);
        int saved = dup(1);
        dup2(fds[1], 1);
        p.usage(std::cout);
        std::cout.flush();
        std::fflush(stdout);
        dup2(saved, 1);
        close(saved);
        close(fds[1]);
        std::string text;
        char buf[256];
        ssize_t r;
        while ((r = read(fds[0], buf, sizeof buf)) > 0)
            text.append(buf, static_cast<std::size_t>(r));
        close(fds[0]);
        return put(out, cap, text);
#endif
    }
    std::stringstream s;
    // NOTE for the solver: in the generated C the exit edge of this loop is a backward goto, so CBMC executes what follows once per
    // possible exit iteration -- which here is a blessing: every copy of usage() sees a CONCRETE stream length (a merged, symbolic
    // length was measured at 25 GB without a verdict).  The plan therefore gives every loop of k_usage a bound of PMAX + 2 up front.
    for (unsigned i = 0; i < prior; ++i)
        s << '#';
    p.usage(s);
    return put(out, cap, s.str(), prior);
}

unsigned k_padded(const char* text, unsigned len, int left_pad, int max_width, char* out, unsigned cap)
{
    std::stringstream s;
    nitro::io::terminal::format_padded(s, std::string(text, len), left_pad, max_width);
    return put(out, cap, s.str());
}
