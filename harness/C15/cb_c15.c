/* C15: usage text lists everything once, in declaration order, on any stream.
 * modes: MODE_USAGE (-DCFG=0..2): symbolic one-byte names, prior content of 0..PMAX bytes (symbolic length), three stream kinds
 *        MODE_PAD: wrapping law of io::terminal::format_padded at a scaled geometry */
#include "vharness.h"
#include "all.h"
#ifndef PMAX
#define PMAX 8
#endif
#define TCAP 400
u8* ir2c_getenv(u8* n) { (void)n; return 0; }
static int find_from(const u8* t, u32 tl, u32 from, const char* pat)
{
    u32 pl = 0; while (pat[pl]) ++pl;
    for (u32 i = from; i + pl <= tl; ++i) { int m = 1; for (u32 k = 0; m && k < pl; ++k) if (t[i + k] != (u8)pat[k]) m = 0; if (m) return (int)i; }
    return -1;
}
static u32 count_of(const u8* t, u32 tl, u32 from, const char* pat) { u32 c = 0; int p = (int)from - 1; for (;;) { p = find_from(t, tl, (u32)(p + 1), pat); if (p < 0) break; ++c; } return c; }
int main(void)
{
    ir2c_global_ctors();
#if defined(MODE_USAGE)
#ifdef CONCRETE_NAMES
    u8 n0 = 'q', n1 = 'w', n2 = 'r';      /* names concrete: only the prior stream content is symbolic */
#else
    u8 n0 = in_ch(), n1 = in_ch(), n2 = in_ch();
#endif
    ASSUME(n0 >= 'a' && n0 <= 'z' && n1 >= 'a' && n1 <= 'z' && n2 >= 'a' && n2 <= 'z' && n0 != n1 && n0 != n2 && n1 != n2);
    ASSUME(n0 != 'x' && n1 != 'x' && n2 != 'x' && n0 != 'y' && n1 != 'y' && n2 != 'y' && n0 != 't' && n0 != 'd' && n0 != 'e' && n1 != 'd' && n1 != 'e' && n0 != 'v' && n1 != 'v');
    u32 prior = in_range(0, PMAX);
    static u8 a[TCAP], b[TCAP], c[TCAP];
    u32 la = k_usage(CFG, n0, n1, n2, 0, 0, a, TCAP);
    u32 lb = k_usage(CFG, n0, n1, n2, 1, prior, b, TCAP);
    u32 lc = k_usage(CFG, n0, n1, n2, 2, 0, c, TCAP);
    CHECK(la > 0 && la <= TCAP, "C15 (harness): the usage text fits the buffer");
    int same_b = la == lb, same_c = la == lc;
    for (u32 i = 0; i < la && i < TCAP; ++i) { if (same_b && a[i] != b[i]) same_b = 0; if (same_c && a[i] != c[i]) same_c = 0; }
    CHECK(same_b, "C15: the usage text is the same whatever the stream already contains");
    CHECK(same_c, "C15: the usage text is the same on a non-seekable stream such as std::cout");
    /* no line exceeds 80 columns */
    u32 col = 0, maxcol = 0; for (u32 i = 0; i < la && i < TCAP; ++i) { if (a[i] == '\n') col = 0; else { ++col; if (col > maxcol) maxcol = col; } }
    CHECK(maxcol <= 80, "C15: no line exceeds 80 columns");
    /* completeness and order: synopsis = text before the first blank line; option section after it */
    int syn_end = find_from(a, la, 0, "\n\n");
    CHECK(syn_end > 0, "C15: synopsis followed by a blank line");
    char p0[8], p1[8], p2[8];
#if CFG == 0
    /* toggle n0 with short name t: synopsis "[-t]", option line "  -t, --<n0>" */
    p0[0] = '-'; p0[1] = 't'; p0[2] = ','; p0[3] = ' '; p0[4] = '-'; p0[5] = '-'; p0[6] = (char)n0; p0[7] = 0;
    CHECK(find_from(a, (u32)syn_end, 0, "[-t]") > 0, "C15: the synopsis mentions every declared toggle");
    CHECK(count_of(a, la, (u32)syn_end, p0) == 1, "C15: every declaration is listed exactly once in the option section with its short and long spelling");
    (void)p1; (void)p2;
#elif CFG == 1
    /* reversible toggle n0: "--[no-]<n0>" ... "(default: enabled)"; option n1: "-x, --<n1> ARG" with "d e", env hint and default */
    p0[0] = '-'; p0[1] = ']'; p0[2] = (char)n0; p0[3] = 0;                 /* "...no-]<n0>" */
    p1[0] = '-'; p1[1] = 'x'; p1[2] = ','; p1[3] = ' '; p1[4] = '-'; p1[5] = '-'; p1[6] = (char)n1; p1[7] = 0;
    int i0 = find_from(a, la, (u32)syn_end, p0), i1 = find_from(a, la, (u32)syn_end, p1);
    CHECK(count_of(a, la, (u32)syn_end, p0) == 1 && count_of(a, la, (u32)syn_end, p1) == 1, "C15: every declaration is listed exactly once in the option section with its short and long spelling");
    CHECK(i0 > 0 && i1 > i0, "C15: inside a group the declarations appear in declaration order");
    CHECK(count_of(a, (u32)syn_end, 0, p0) == 1 && find_from(a, (u32)syn_end, 0, "-x") > 0, "C15: the synopsis mentions every declared toggle and option");
    CHECK(find_from(a, la, (u32)i1, " ARG") > 0 && find_from(a, la, (u32)i1, "d e") > 0 && find_from(a, la, (u32)i1, "'E'") > 0 && find_from(a, la, (u32)i1, "(default: v)") > 0 &&
          find_from(a, la, (u32)i0, "(default: enabled)") > 0, "C15: value placeholder, description words, environment hint and default are shown");
    (void)p2;
#elif CFG == 3
    /* "-x, --a-very-long-option-name-of-36-chars-<n0> ARG" (wider than column 40) with an 11-word description; option n1 with default "" */
    p1[0] = ' '; p1[1] = ' '; p1[2] = '-'; p1[3] = '-'; p1[4] = (char)n1; p1[5] = ' '; p1[6] = 'A'; p1[7] = 0;
    int i0 = find_from(a, la, (u32)syn_end, "-x, --a-very-long-option-name-of-36-chars-"), i1 = find_from(a, la, (u32)syn_end, p1);
    CHECK(i0 > 0 && count_of(a, la, (u32)syn_end, "-x, --a-very-long-option-name-of-36-chars-") == 1 && i1 > i0 && count_of(a, la, (u32)syn_end, p1) == 1,
          "C15: every declaration is listed exactly once in the option section, in declaration order");
    { /* all eleven description words, in order */
        static const char* const w[11] = { "aa", "bb", "cc", "dd", "ee", "ff", "gg", "hh", "ii", "jj", "kk" };
        int pos = i0, ok = i0 > 0; for (int k = 0; ok && k < 11; ++k) { int q = find_from(a, la, (u32)pos, w[k]); if (q < 0 || q > i1) ok = 0; else pos = q + 2; }
        CHECK(ok, "C15: no word of a description is lost or reordered");
    }
    CHECK(find_from(a, la, (u32)i1, "(default: )") > 0, "C15: a declared default is shown also when it is the empty string");
    (void)p0; (void)p2;
#else
    /* default group "arguments": option n0; group g2 (description desc): toggle n1 ("some words"), multi-option n2 short y, default x, y */
    p0[0] = '-'; p0[1] = '-'; p0[2] = (char)n0; p0[3] = ' '; p0[4] = 'A'; p0[5] = 0;
    p1[0] = ' '; p1[1] = ' '; p1[2] = '-'; p1[3] = '-'; p1[4] = (char)n1; p1[5] = ' '; p1[6] = 0;
    p2[0] = '-'; p2[1] = 'y'; p2[2] = ','; p2[3] = ' '; p2[4] = '-'; p2[5] = '-'; p2[6] = (char)n2; p2[7] = 0;
    int g1 = find_from(a, la, (u32)syn_end, "arguments:"), g2 = find_from(a, la, (u32)syn_end, "g2:");
    int i0 = find_from(a, la, (u32)syn_end, p0), i1 = find_from(a, la, (u32)syn_end, p1), i2 = find_from(a, la, (u32)syn_end, p2);
    CHECK(count_of(a, la, (u32)syn_end, p0) == 1 && count_of(a, la, (u32)syn_end, p1) == 1 && count_of(a, la, (u32)syn_end, p2) == 1,
          "C15: every declaration is listed exactly once in the option section (a re-requested one is not duplicated)");
    CHECK(g1 > 0 && g2 > g1 && i0 > g1 && i0 < g2 && i1 > g2 && i2 > i1, "C15: groups appear in creation order and, inside a group, declarations in declaration order");
    CHECK(find_from(a, la, (u32)g2, "desc") > 0 && find_from(a, la, (u32)i1, "some words") > 0 && find_from(a, la, (u32)i2, "(default: x, y)") > 0, "C15: group description, description words and the default list are shown, nothing lost or reordered");
#endif
    WITNESS_AT(prior >= 5, "prior content of five or more bytes");
    WITNESS_AT(prior >= 2, "prior content of two or more bytes");
    WITNESS_AT(prior == 0, "no prior content");
    OBS("la=%u lb=%u lc=%u maxcol=%u\n", la, lb, lc, maxcol); OBS_STR("a", a, la < 120 ? la : 120);
#elif defined(MODE_PAD)
    /* NW words of symbolic lengths 1..WMAX separated by single blanks; left_pad 0..4, max_width left_pad+2..12 */
#ifndef NW
#define NW 3
#endif
#define WMAX 6
    u32 wl[NW]; u8 text[NW * (WMAX + 1) + 1]; u32 tl = 0;
    for (u32 w = 0; w < NW; ++w) { wl[w] = in_range(1, WMAX); if (w) text[tl++] = ' '; for (u32 i = 0; i < wl[w]; ++i) text[tl++] = (u8)('a' + w); }
    u32 lp = in_range(0, 4), mw = in_range(2, 12); ASSUME(mw >= lp + 2);
    static u8 out[160]; u32 ol = k_padded(text, tl, lp, mw, out, 160);   /* the stream capacity of this unit (64) bounds the padded text */
    CHECK(ol <= 160, "C15 (harness): padded text fits");
    /* words in order, unchanged, none lost: strip blanks and newlines and compare with the words glued together */
    u32 wi = 0, ci = 0; int ok = 1;
    for (u32 i = 0; i < ol && i < 160; ++i) {
        if (out[i] == ' ' || out[i] == '\n') continue;
        if (wi >= NW || out[i] != (u8)('a' + wi)) { ok = 0; break; }
        if (++ci == wl[wi]) { ++wi; ci = 0; }
    }
    CHECK(ok && wi == NW, "C15: no word of the text is lost, altered or reordered by the wrapping");
    /* every line is at most max_width wide unless it consists of one word longer than max_width - left_pad */
    u32 col = 0, words_on_line = 0, inword = 0; int width_ok = 1;
    for (u32 i = 0; i <= ol && i <= 160; ++i) {
        if (i == ol || out[i] == '\n') { if (col > mw && words_on_line > 1) width_ok = 0; col = 0; words_on_line = 0; inword = 0; continue; }
        ++col; if (out[i] != ' ') { if (!inword) { inword = 1; ++words_on_line; } } else inword = 0;
    }
    CHECK(width_ok, "C15: no line exceeds the maximum width unless a single unbreakable word forces it");
    WITNESS_AT(ok && wi == NW, "text wrapped");
    OBS("ol=%u\n", ol); OBS_STR("out", out, ol < 160 ? ol : 160);
#else
#error "no MODE"
#endif
    HARNESS_END();
}
