import os, sys
sys.path.insert(0, os.path.join(os.path.dirname(__file__), '..', '..', 'tools'))
from vlib import Unit, Query, Runner
SRCS = ['src/options/parser.cpp', 'src/options/option.cpp', 'src/options/toggle.cpp', 'src/options/multi_option.cpp', 'src/options/group.cpp', 'src/env/get.cpp']
CFG = ['one toggle with a short name', 'reversible toggle + option with short name, description, env hint and default + positionals', 'option in the default group; toggle and multi-option in a second group']


def plan(tier):
    th = tier == 'thorough'
    qs, corpus = [], []
    for cfg in range(3):
        d = ['-DMODE_USAGE', '-DCFG=%d' % cfg, '-DPMAX=%d' % (16 if th else 8), '-DCONCRETE_NAMES']
        prof = [[0], [5], [8], [1]]
        qs.append(Query('usage_cfg%d' % cfg, d, ['prior content of five or more bytes', 'no prior content'], unwind=2, hardcap=340, est_gb=10, timeout=3000 if th else 1500, profile=prof, harness_unwind=405, extra_cbmc=['--max-field-sensitivity-array-size', '512'],
                        sample={'declaration': CFG[cfg], 'symbolic': 'the one-byte long names, the number of bytes already in the stream (0..8)', 'streams': 'fresh stringstream, stringstream with prior content, non-seekable cout'}))
        corpus += [(d, p) for p in prof]
    for nw in ((2, 3, 4) if th else (2, 3)):
        d = ['-DMODE_PAD', '-DNW=%d' % nw]
        prof = [[3, 2, 4, 1][:nw] + [0, 8], [6, 6, 6, 6][:nw] + [4, 6], [1, 1, 1, 1][:nw] + [2, 12], [5, 3, 6, 2][:nw] + [1, 7]]
        qs.append(Query('pad_w%d' % nw, d, ['text wrapped'], unwind=2, hardcap=70, est_gb=4, timeout=1500, profile=prof, harness_unwind=165,
                        sample={'unit': 'io::terminal::format_padded', 'words': nw, 'symbolic': 'word lengths 1..6, left_pad 0..4, max_width left_pad+2..12'}))
        corpus += [(d, p) for p in prof]
    units = []
    for cfg, cap in ((0, 110), (1, 330), (2, 300)):
        units.append(Unit('usage%d' % cfg, 'harness/C15/h_c15.cpp', 'harness/C15/cb_c15.c', repo_srcs=SRCS, caps={'str': cap, 'vec': 24, 'map': 5, 'ss': cap, 're': 4},
                          cxx_defs=['-DNITRO_VERIF_NO_MESSAGES'], queries=[q for q in qs if q.name == 'usage_cfg%d' % cfg], corpus=[c for c in corpus if '-DCFG=%d' % cfg in c[0]], wrap=['getenv']))
    units.append(Unit('pad', 'harness/C15/h_c15.cpp', 'harness/C15/cb_c15.c', repo_srcs=SRCS, caps={'str': 60, 'vec': 8, 'map': 5, 'ss': 60, 're': 4},
                      cxx_defs=['-DNITRO_VERIF_NO_MESSAGES'], queries=[q for q in qs if q.name.startswith('pad_')], corpus=[c for c in corpus if '-DMODE_PAD' in c[0]], wrap=['getenv']))
    return Runner('C15', tier, units,
                  bounds={'declarations': 'three concrete shapes with symbolic one-byte names', 'prior_stream_content': '0..8 bytes (thorough: 0..16), symbolic', 'wrapping_law': '2-3 (thorough 4) words of 1..6 bytes at a scaled geometry'},
                  outside=['descriptions / names / defaults of arbitrary length at the real 40/80 geometry beyond the three shapes', 'more than two groups', 'geometry-independence of the wrapping law beyond the scaled ranges'],
                  assumptions=['std::cout is the non-seekable stream core of the vstd model (tellp() == -1); natively the replay connects std::cout to a pipe',
                               'real libstdc++ std::sort (header-only) is in the IR'])
