import os, sys
sys.path.insert(0, os.path.join(os.path.dirname(__file__), '..', '..', 'tools'))
from vlib import Unit, Query, Runner
SRCS = ['src/options/parser.cpp', 'src/options/option.cpp', 'src/options/toggle.cpp', 'src/options/multi_option.cpp', 'src/options/group.cpp', 'src/env/get.cpp']
CFG = ['one toggle with a short name', 'reversible toggle + option with short name, description, env hint and default + positionals', 'option in the default group; toggle and multi-option in a second group', 'option whose spelling is wider than the description column with a wrapping description; option with an empty default']


def plan(tier):
    th = tier == 'thorough'
    qs, corpus = [], []
    for cfg in ((0, 3, 1, 2) if th else (0, 3)):
        # the larger shapes cost one symbolic execution of usage() per possible prior length (DESIGN 11.5): quick keeps that range short for them
        pmax = (16 if cfg == 0 else 8) if th else (8 if cfg == 0 else 3)
        d = ['-DMODE_USAGE', '-DCFG=%d' % cfg, '-DPMAX=%d' % pmax, '-DCONCRETE_NAMES']
        prof = [[v] for v in range(pmax + 1)]      # every value of the one symbolic scalar is profiled: the loop bounds are exact in the first round
        wit = ['prior content of five or more bytes' if pmax >= 5 else 'prior content of two or more bytes', 'no prior content']
        qs.append(Query('usage_cfg%d' % cfg, d, wit, unwind=2, hardcap=340, est_gb=10, timeout=7200 if th else 1500, profile=prof, harness_unwind=405, floor={r'k_usage\.\d+$': pmax + 2},
                        extra_cbmc=['--max-field-sensitivity-array-size', '512'],
                        sample={'declaration': CFG[cfg], 'symbolic': 'the number of bytes already in the stream (0..%d)' % pmax, 'streams': 'fresh stringstream, stringstream with prior content, non-seekable cout'}))
        corpus += [(d, p) for p in prof[::4]]
    units = []
    for cfg, cap in ((0, 110), (1, 330), (2, 300), (3, 300)):
        units.append(Unit('usage%d' % cfg, 'harness/C15/h_c15.cpp', 'harness/C15/cb_c15.c', repo_srcs=SRCS, caps={'str': cap, 'vec': 24, 'map': 5, 'ss': cap, 're': 4},
                          cxx_defs=['-DNITRO_VERIF_NO_MESSAGES'], queries=[q for q in qs if q.name == 'usage_cfg%d' % cfg], corpus=[c for c in corpus if '-DCFG=%d' % cfg in c[0]], wrap=['getenv']))
    units = [u_ for u_ in units if u_.queries]
    return Runner('C15', tier, units,
                  bounds={'declarations': 'four concrete shapes (quick: two) with symbolic one-byte names', 'prior_stream_content': 'symbolic; quick: 0..8 bytes for the single-toggle shape, 0..3 for the wide-entry shape; thorough: 0..16 / 0..8 for all four', 'wrapping_law': 'not decided as a law (out of reach, DESIGN 11.5); the produced texts are checked for width and word order'},
                  outside=['descriptions / names / defaults of arbitrary length at the real 40/80 geometry beyond the four shapes', 'more than two groups', 'the wrapping law for descriptions of arbitrary word lengths'],
                  assumptions=['std::cout is the non-seekable stream core of the vstd model (tellp() == -1); natively the replay connects std::cout to a pipe',
                               'real libstdc++ std::sort (header-only) is in the IR'])
