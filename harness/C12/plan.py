import os, sys
sys.path.insert(0, os.path.join(os.path.dirname(__file__), '..', 'parser'))
from common import *  # noqa

P = 'C12'


def plan(tier):
    th = tier == 'thorough'
    pos = ['-DWIT_POS']
    wp = (W_OK, W_ERR, 'a positional is reported')
    H = dict(timeout=3400, est_gb=10)
    qs = [
        Q(P, 1, ['--', '***'], extra=pos, wit=(W_OK, 'a positional is reported')),     # everything after -- is positional whatever it looks like
        Q(P, 1, ['--', 'a', '***'], extra=pos, wit=(W_OK, 'a positional is reported')),
        Q(P, 1, ['--', 'a', 'b', '***'], wit=(W_ERR,)),                                   # the third positional exceeds the limit 2
        Q(P, 1, ['a', 'b', '***'], extra=pos, wit=wp),                                    # limit boundary without --
        Q(P, 1, ['--o', '***'], extra=pos, wit=(W_OK, W_ERR)),                            # -- right after an option awaiting a value
        Q(P, 4, ['a', '***'], wit=(W_ERR,)),                                         # limit 1, greedy: second token is positional whatever it spells
        Q(P, 4, ['***'], extra=pos, wit=wp),
        Q(P, 3, ['-o=1', '--m=2', 'a', '***'], extra=pos, wit=(W_OK, 'a positional is reported')),   # unlimited + greedy: even a declared option after the first positional
        Q(P, 9, ['a', '***'], extra=pos, wit=wp),                                         # unlimited, not greedy: options still parsed
        Q(P, 2, ['***'], wit=(W_OK, W_ERR)),                                              # limit 0: no positional ever accepted
        Q(P, 1, ['****'], extra=pos, wit=wp),
    ]
    if th:
        qs += [Q(P, 1, ['***', '***'], extra=pos, wit=wp, **H), Q(P, 1, ['**', '--', '**'], extra=pos, wit=wp, **H), Q(P, 4, ['***', '***'], extra=pos, wit=wp, **H),
               Q(P, 9, ['***', '***'], extra=pos, wit=wp, **H), Q(P, 3, ['**', '--', '***'], extra=pos, wit=wp, **H), Q(P, 12, ['a', 'b', '***'], extra=pos, wit=wp)]
    # arguments::get(int) / operator[]: all indices in [-n-1, n] for n = 0..3
    for toks in ([], ['?'], ['ab', '?'], ['a', 'bc', '?']):
        qs.append(Q('C12_INDEX', 9, toks, wit=('out-of-range index raised',) + (('negative index answered', 'non-negative index answered') if toks else ()),
                    name='index_n%d' % len(toks)))
    corpus = base_corpus(P, envdecls=[]) + [rt_entry(9, t, 'C12_INDEX', vin=v) for t, v in ((['a', 'bc', 'd'], [3, 0]), (['a', 'bc', 'd'], [6, 1]), (['a', 'bc', 'd'], [0, 0]), (['a'], [5, 0]), ([], [4, 1]))]
    return Runner(P, tier, [parser_unit('parser', qs, corpus)], bounds=dict(BOUNDS_NOTE, index='every index in [-n-1, n] for n = 0..3 positionals, both get(int) and operator[]'),
                  outside=OUTSIDE, assumptions=ASSUME)
