import os, sys
sys.path.insert(0, os.path.join(os.path.dirname(__file__), '..', 'parser'))
from common import *  # noqa

P = 'C12'


def plan(tier):
    th = tier == 'thorough'
    pos = ['-DWIT_POS']
    wp = (W_OK, W_ERR, 'a positional is reported')
    qs = [
        Q(P, 1, ['***', '***'], extra=pos, wit=wp),        # limit 2, not greedy, option awaiting a value
        Q(P, 1, ['--', '***', '***'], extra=pos, wit=wp),  # everything after -- is positional whatever it looks like (limit 2: the third would exceed)
        Q(P, 1, ['**', '--', '**', '**'], extra=pos, wit=wp),   # -- in the middle; limit boundary 2 vs 3
        Q(P, 4, ['**', '***', '**'], extra=pos, wit=wp),   # limit 1, greedy
        Q(P, 3, ['***', '***'], extra=pos, wit=wp),        # unlimited, greedy, required options
        Q(P, 9, ['**', '--', '***'], extra=pos, wit=wp),   # unlimited, not greedy
        Q(P, 2, ['***'], wit=(W_OK, W_ERR)),               # limit 0: no positional ever accepted
    ]
    # arguments::get(int) / operator[]: all indices in [-n-1, n] for n = 0..3
    for toks in ([], ['?'], ['??', '?'], ['?', '??', '?']):
        qs.append(Q('C12_INDEX', 9, toks, wit=('out-of-range index raised',) + (('negative index answered', 'non-negative index answered') if toks else ()),
                    name='index_n%d' % len(toks)))
    if th:
        qs += [Q(P, 1, ['***', '***', '***'], extra=pos, wit=wp, timeout=3000, est_gb=8), Q(P, 4, ['***', '***', '***'], extra=pos, wit=wp, timeout=3000, est_gb=8),
               Q(P, 9, ['***', '***', '**'], extra=pos, wit=wp, timeout=3000, est_gb=8), Q(P, 12, ['**', '**', '**', '**'], extra=pos, wit=wp, timeout=3000, est_gb=8),
               Q(P, 3, ['**', '--', '***'], extra=pos, wit=wp)]
    corpus = base_corpus(P, envdecls=[]) + [rt_entry(9, t, 'C12_INDEX', vin=v) for t, v in ((['a', 'bc', 'd'], [3, 0]), (['a', 'bc', 'd'], [6, 1]), (['a', 'bc', 'd'], [0, 0]), (['a'], [5, 0]), ([], [4, 1]))]
    return Runner(P, tier, [parser_unit('parser', qs, corpus)], bounds=dict(BOUNDS_NOTE, index='every index in [-n-1, n] for n = 0..3 positionals, both get(int) and operator[]'),
                  outside=OUTSIDE, assumptions=ASSUME)
