import itertools
import os, sys
sys.path.insert(0, os.path.join(os.path.dirname(__file__), '..', 'parser'))
from common import *  # noqa

P = 'C02'


def renderings(th):
    """renderings of an assignment over declaration 1 (toggles a/-x, b/-y; option o/-p; multi-option m/-q; 2 positionals):
    per item long/short/=-form, bundling, permutation, position of --; VALUES are symbolic ('*' may be empty, '?' non-empty)"""
    opt = [['--o', '?*'], ['--o=**'], ['-p', '?*'], ['-p=**']]
    mul = [['--m', '?*'], ['--m=**'], ['-q', '?*'], ['-q=**']]
    tog = [['-x'], ['--a'], ['-xy'], ['-yx'], ['--b', '-x'], ['-xx']]
    out = []
    for o in opt:
        for t in tog[:3]:
            out.append(o + t)
            out.append(t + o)
    for m1 in mul:
        for m2 in mul[:2]:
            if len(m1) + len(m2) <= 4:
                out.append(m1 + m2)
    out += [['--o=**', '**'], ['**', '--o=**'], ['-p', '?*', '--', '**'], ['--', '**', '**'], ['**', '-xy', '**'], ['--m=**', '?*', '-q=**'], ['-q', '?*', '--a', '?*']]
    if th:
        for o in opt:
            for m in mul:
                if len(o) + len(m) <= 4:
                    out.append(o + m)
                    out.append(m + o)
        for t in tog:
            for m in mul:
                if len(t) + len(m) <= 4:
                    out.append(t + m)
        out += [['--o=***', '--m=***'], ['-xy', '--', '**', '**'], ['--m=**', '--m=**', '--m=**'], ['?*', '--o', '?*', '?*']]
    seen, res = set(), []
    for r in out:
        if tuple(r) not in seen and len(r) <= 4:
            seen.add(tuple(r))
            res.append(r)
    return res


def plan(tier):
    th = tier == 'thorough'
    qs = []
    rs = renderings(th)
    if not th:
        # quick: every fourth rendering plus the ones that permute items / use -- (a different third per seed)
        seed = int(os.environ.get('VERIF_SEED', '0') or 0)
        rs = [r for i, r in enumerate(rs) if i % 4 == seed % 4 or '--' in r]
        # measured on a fresh machine (vp check, VERIF_SEED=1): a fully symbolic FIRST token followed by another symbolic token ('** --o=**': no
        # verdict in 860 s) and three symbolic tokens ('--m=** ?* -q=**': 618 s) do not fit a 900 s quick run; they stay in the thorough tier
        sym = lambda t: '*' in t or '?' in t
        rs = [r for r in rs if not (sym(r[0]) and not r[0].startswith('-') and len(r) > 1 and any(sym(t) for t in r[1:]) and r[0] != '--') and sum(1 for t in r if sym(t)) < 3]
    for r in rs:
        wit = [W_OK]
        qs.append(Q(P, 1, r, wit=wit, k=4, est_gb=4))
    # typed access: decimal text of 1..NDIG digits (leading zeros included) with optional sign -> the number, through the real as<T>()
    tq, tcorpus = [], []
    ndig = 4 if th else 3
    for shape, what in ((0, '--o=<sign><digits>: as<int>, as<long long>'), (1, '-p <digits>: as<int>, as<unsigned>'), (2, '--m <digits> -q=<sign><digits>: as<int>(name, i)')):
        d = ['-DSHAPE=%d' % shape, '-DNDIG=%d' % ndig]
        one = lambda sg, n, ds: [sg, n] + [ord(c) for c in (ds + '0000')[:ndig]]
        if shape == 2:
            prof = [one(0, ndig, '0120') + one(1, ndig, '0990'), one(0, 1, '7') + one(2, 2, '08'), one(0, 2, '10') + one(0, 1, '0')]
        else:
            prof = [one(1 if shape == 0 else 0, ndig, '0120'), one(0, 1, '7'), one(2 if shape == 0 else 0, 2, '08'), one(0, ndig, '9999')]
        wits = ['zero-padded decimal text'] + (['negative number'] if shape != 1 else [])
        tq.append(Query('typed_shape%d' % shape, d, wits, unwind=2, hardcap=40, est_gb=3, profile=prof, timeout=3000 if th else 800,
                        sample={'claim': 'typed access returns the number whose decimal text was given', 'command_line': what,
                                'symbolic': 'sign, number of digits (1..%d), every digit' % ndig}))
        tcorpus += [(d, v) for v in prof]
    typed = Unit('typed', 'harness/C02/h_typed.cpp', 'harness/C02/cb_typed.c', repo_srcs=OPTION_SRCS, caps={'str': 16, 'vec': 5, 'map': 5, 'ss': 16, 're': 8},
                 cxx_defs=['-DNITRO_VERIF_NO_MESSAGES'], queries=tq, corpus=tcorpus, wrap=['getenv'], leak_on_unwind=True)
    return Runner(P, tier, [parser_unit('parser', qs, base_corpus(P, decls=[1], envdecls=[])), typed],
                  bounds=dict(BOUNDS_NOTE, typed_access='1..%d decimal digits, optional sign, three command-line shapes' % ndig, renderings='%d renderings enumerated outside the solver; inside each every value byte is symbolic (values of 0..2 or 0..3 bytes)' % len(qs)),
                  outside=OUTSIDE + ['typed access for numbers of more than %d digits, floating point and non-decimal text ("returns the number whose DECIMAL text was given")' % ndig], assumptions=ASSUME + [
                      'typed access: the integer extraction operator of std::istream is the vstd model (decimal / octal / hexadecimal / prefix-detecting according to basefield, as [facet.num.get.virtuals] specifies); the replay runs real libstdc++',
                      'a value given as a SEPARATE token is assumed to be a value token (first byte not a dash): C04 defines the other case as "missing value"'])
