import itertools
import os, sys
sys.path.insert(0, os.path.join(os.path.dirname(__file__), '..', 'parser'))
from common import *  # noqa

P = 'C02'


def renderings(th):
    """renderings of an assignment over declaration 1 (toggles a/-x, b/-y; option o/-p; multi-option m/-q; 2 positionals):
    per item long/short/=-form, bundling, permutation, position of --; VALUES are symbolic ('*' may be empty, '?' non-empty)"""
    opt = [['--o', '?*'], ['--o=**'], ['-p', '?*'], ['-p=**']]
    mul = [['--m', '?*'], ['--m=**'], ['-q', '?*'], ['-q=**']]
    tog = [['-x'], ['--a'], ['-xy'], ['-yx'], ['--b', '-x'], ['-xx']]
    out = []
    for o in opt:
        for t in tog[:3]:
            out.append(o + t)
            out.append(t + o)
    for m1 in mul:
        for m2 in mul[:2]:
            if len(m1) + len(m2) <= 4:
                out.append(m1 + m2)
    out += [['--o=**', '**'], ['**', '--o=**'], ['-p', '?*', '--', '**'], ['--', '**', '**'], ['**', '-xy', '**'], ['--m=**', '?*', '-q=**'], ['-q', '?*', '--a', '?*']]
    if th:
        for o in opt:
            for m in mul:
                if len(o) + len(m) <= 4:
                    out.append(o + m)
                    out.append(m + o)
        for t in tog:
            for m in mul:
                if len(t) + len(m) <= 4:
                    out.append(t + m)
        out += [['--o=***', '--m=***'], ['-xy', '--', '**', '**'], ['--m=**', '--m=**', '--m=**'], ['?*', '--o', '?*', '?*']]
    seen, res = set(), []
    for r in out:
        if tuple(r) not in seen and len(r) <= 4:
            seen.add(tuple(r))
            res.append(r)
    return res


def plan(tier):
    th = tier == 'thorough'
    qs = []
    rs = renderings(th)
    if not th:
        # quick: every third rendering plus the ones that permute items / use -- (a different third per seed)
        seed = int(os.environ.get('VERIF_SEED', '0') or 0)
        rs = [r for i, r in enumerate(rs) if i % 3 == seed % 3 or '--' in r]
    for r in rs:
        wit = [W_OK]
        qs.append(Q(P, 1, r, wit=wit, k=4, est_gb=4))
    # typed access: decimal text of up to 3 digits with optional sign -> the number
    for tpl in (['--o', 'DDD'], ['--o=SDD'], ['--m', 'DD', '--m=SD']):
        pass
    return Runner(P, tier, [parser_unit('parser', qs, base_corpus(P, decls=[1], envdecls=[]))],
                  bounds=dict(BOUNDS_NOTE, renderings='%d renderings enumerated outside the solver; inside each every value byte is symbolic (values of 0..2 or 0..3 bytes)' % len(qs)),
                  outside=OUTSIDE + ['typed access as<T>() (decimal parsing lives in the stream model; not claimed)'], assumptions=ASSUME + [
                      'a value given as a SEPARATE token is assumed to be a value token (first byte not a dash): C04 defines the other case as "missing value"'])
