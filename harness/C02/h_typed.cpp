// harness (C02, last sentence): typed access through the real arguments::as<T>() after a real parse
#include <nitro/options/parser.hpp>
#include <memory>
#include <string>

extern "C" {
// shape 0: argv = { app, "--o=<v0>" }          -> as<int>("o"), as<long long>("o")
// shape 1: argv = { app, "-p", "<v0>" }         -> as<int>("o"), as<unsigned>("o")
// shape 2: argv = { app, "--m", "<v0>", "-q=<v1>" } -> as<int>("m", 0), as<int>("m", 1)
// returns 0 when the parse succeeded; results are read through typed_out()
int k_typed(int shape, int argc, const char* const* argv);
long long typed_out(unsigned i);
}
static long long g_out[4];
long long typed_out(unsigned i) { return g_out[i]; }

int k_typed(int shape, int argc, const char* const* argv)
{
    try
    {
        nitro::options::parser p("app");
        p.option("o").short_name("p").optional();
        p.multi_option("m").short_name("q").optional();
        auto a = p.parse(argc, argv);
        if (shape == 0)
        {
            g_out[0] = a.as<int>("o");
            g_out[1] = a.as<long long>("o");
        }
        else if (shape == 1)
        {
            g_out[0] = a.as<int>("o");
            g_out[1] = static_cast<long long>(a.as<unsigned>("o"));
        }
        else
        {
            if (a.count("m") != 2)
                return 2;
            g_out[0] = a.as<int>("m", 0);
            g_out[1] = a.as<int>("m", 1);
        }
        return 0;
    }
    catch (...)
    {
        return 1;
    }
}
