/* C02 (typed access): "typed access returns the number whose decimal text was given".  -DSHAPE=0|1|2, -DNDIG = maximal number of digits */
#include "vharness.h"
#include "all.h"
u8* ir2c_getenv(u8* n) { (void)n; return 0; }
#ifndef NDIG
#define NDIG 3
#endif
/* decimal text: optional sign (only when sign_ok) followed by 1..NDIG digits, digits symbolic ('0'..'9', leading zeros included) */
static long long draw(u8* out, int sign_ok, u32* lenp)
{
    u32 sign = in_range(0, 2); /* 0 none, 1 '-', 2 '+' */
    if (!sign_ok) ASSUME(sign == 0);
    u32 nd = in_range(1, NDIG);
    u32 k = 0;
    if (sign == 1) out[k++] = '-';
    if (sign == 2) out[k++] = '+';
    long long v = 0;
    for (u32 i = 0; i < NDIG; ++i) {
        u8 d = in_u8();
        ASSUME(d >= '0' && d <= '9');
        if (i < nd) { out[k++] = d; v = v * 10 + (d - '0'); }
    }
    out[k] = 0;
    *lenp = k;
    return sign == 1 ? -v : v;
}
int main(void)
{
    ir2c_global_ctors();
    static u8 t0[16], t1[16], v0[8], v1[8];
    static const u8 app[] = "app";
    const u8* argv[5] = { app, 0, 0, 0, 0 };
    u32 l0 = 0, l1 = 0; long long e0, e1 = 0; int argc;
#if SHAPE == 0
    e0 = draw(v0, 1, &l0);
    t0[0] = '-'; t0[1] = '-'; t0[2] = 'o'; t0[3] = '='; for (u32 i = 0; i <= l0; ++i) t0[4 + i] = v0[i];
    argv[1] = t0; argc = 2;
#elif SHAPE == 1
    e0 = draw(v0, 0, &l0); /* a separate value token cannot start with a dash (C04); '+' would be fine but is covered by shape 0 */
    t0[0] = '-'; t0[1] = 'p'; t0[2] = 0;
    argv[1] = t0; argv[2] = v0; argc = 3;
#else
    e0 = draw(v0, 0, &l0); e1 = draw(v1, 1, &l1);
    t0[0] = '-'; t0[1] = '-'; t0[2] = 'm'; t0[3] = 0;
    t1[0] = '-'; t1[1] = 'q'; t1[2] = '='; for (u32 i = 0; i <= l1; ++i) t1[3 + i] = v1[i];
    argv[1] = t0; argv[2] = v0; argv[3] = t1; argc = 4;
#endif
    int st = k_typed(SHAPE, argc, (const u8* const*)argv);
    CHECK(st == 0, "C02: a command line that spells an assignment parses");
    if (st == 0) {
        CHECK(typed_out(0) == e0, "C02: typed access returns the number whose decimal text was given (first value)");
#if SHAPE == 2
        CHECK(typed_out(1) == e1, "C02: typed access returns the number whose decimal text was given (second multi-option value)");
#else
        CHECK(typed_out(1) == e0, "C02: typed access returns the number whose decimal text was given (wider / unsigned type)");
#endif
    }
    WITNESS_AT(st == 0 && v0[0] == '0' && l0 >= 2 && e0 >= 8, "zero-padded decimal text");
#if SHAPE != 1
    WITNESS_AT(st == 0 && (SHAPE == 0 ? e0 : e1) < 0, "negative number");
#endif
    OBS("st=%d out0=%lld out1=%lld e0=%lld e1=%lld\n", st, typed_out(0), typed_out(1), e0, e1);
    HARNESS_END();
}
