/* cli_spec.h -- reference specification of nitro's command-line semantics, written from the property
 * statements C01-C04, C11, C12 (not from nitro's code): one left-to-right scan.
 *
 *   token classes: value token   = empty, or first byte is not '-'
 *                  "--"          = separator (first one switches to positional mode; later ones are positionals)
 *                  well-formed dash token = one or two dashes followed by a byte that is neither '-' nor '='
 *                  anything else starting with '-' is malformed  (user error ahead of "--")
 *   a dash token is split at its FIRST '=' into name part and value.
 */
#ifndef CLI_SPEC_H
#define CLI_SPEC_H
#include "decl.h"

#define SPEC_OK 0
#define SPEC_USER_ERROR 1

struct spec_ent
{
    int count;               /* toggle count */
    int seen_pos, seen_neg;  /* toggle polarities seen on the command line */
    int on_cmdline;          /* occurred on the command line */
    int provided;
    int present;             /* option has a value */
    const char* value; unsigned vlen;
    unsigned nvals; const char* vals[8]; unsigned vlens[8];
};
struct spec_result
{
    int status;
    struct spec_ent e[MAX_ENT];
    unsigned npos; const char* pos[8]; unsigned plen[8];
    int why;                 /* which rule raised (diagnostics only) */
};

static unsigned sp_len(const char* s) { unsigned n = 0; while (s[n]) ++n; return n; }
static int sp_eqn(const char* a, unsigned al, const char* b) { unsigned bl = sp_len(b); if (al != bl) return 0; for (unsigned i = 0; i < al; ++i) if (a[i] != b[i]) return 0; return 1; }
static int sp_is_value(const char* t) { return t[0] != '-'; }
static int sp_is_dd(const char* t) { return t[0] == '-' && t[1] == '-' && t[2] == 0; }
static int sp_wellformed(const char* t)
{
    /* t starts with '-' and is not "--" */
    unsigned i = 1;
    if (t[1] == '-') i = 2;
    return t[i] != 0 && t[i] != '-' && t[i] != '=';
}
static const char* const sp_truthy[] = { "TRUE", "ON", "YES", "true", "on", "yes", "1", "Y", "with", "True", "On", "WITH", "With", "y", "Yes", 0 };
static const char* const sp_falsy[] = { "false", "FALSE", "without", "0", "NO", "no", "Without", "n", "off", "OFF", "N", "False", "Off", "WITHOUT", "No", 0 };
/* 1 truthy, 0 falsy, -1 not in the documented vocabulary */
static int sp_env_word(const char* w)
{
    unsigned l = sp_len(w);
    for (int i = 0; sp_truthy[i]; ++i) if (sp_eqn(w, l, sp_truthy[i])) return 1;
    for (int i = 0; sp_falsy[i]; ++i) if (sp_eqn(w, l, sp_falsy[i])) return 0;
    return -1;
}

/* env[i]: value of the environment variable bound to entry i at parse time, or NULL when unset / not bound */
static void spec_parse(const struct decl* d, unsigned ntok, const char* const* tok, const char* const* env, struct spec_result* r)
{
    r->status = SPEC_OK; r->npos = 0; r->why = 0;
    for (unsigned k = 0; k < MAX_ENT; ++k) { struct spec_ent z = { 0 }; r->e[k] = z; }
    int pos_mode = 0;
    for (unsigned i = 0; i < ntok; ++i) {
        const char* t = tok[i];
        if (pos_mode || sp_is_value(t)) {
            if (d->limit != POS_UNLIMITED && r->npos == d->limit) { r->status = SPEC_USER_ERROR; r->why = 1; return; }
            if (d->greedy) pos_mode = 1;
            if (r->npos < 8) { r->pos[r->npos] = t; r->plen[r->npos] = sp_len(t); }
            r->npos++;
            continue;
        }
        if (sp_is_dd(t)) { pos_mode = 1; continue; }
        if (!sp_wellformed(t)) { r->status = SPEC_USER_ERROR; r->why = 2; return; }
        /* split at the first '=' */
        unsigned nl = 0; while (t[nl] && t[nl] != '=') ++nl;
        int has_eq = t[nl] == '=';
        const char* val = has_eq ? t + nl + 1 : 0;
        int is_long = t[1] == '-';
        int target = -1; int negate = 0;
        if (is_long) {
            const char* nm = t + 2; unsigned nml = nl - 2;
            for (unsigned k = 0; k < d->n; ++k) if (sp_eqn(nm, nml, d->e[k].name)) target = (int)k;
            if (target < 0 && nml > 3 && nm[0] == 'n' && nm[1] == 'o' && nm[2] == '-') {
                for (unsigned k = 0; k < d->n; ++k)
                    if (d->e[k].kind == K_TOGGLE && sp_eqn(nm + 3, nml - 3, d->e[k].name)) { target = (int)k; negate = 1; }
            }
            if (target < 0) { r->status = SPEC_USER_ERROR; r->why = 3; return; }
        } else {
            unsigned nlet = nl - 1;
            if (nlet >= 2) {
                /* bundle: every letter must be a declared toggle letter, and a bundle cannot carry a value */
                for (unsigned j = 1; j < nl; ++j) {
                    int tk = -1;
                    for (unsigned k = 0; k < d->n; ++k) if (d->e[k].kind == K_TOGGLE && d->e[k].letter[0] && d->e[k].letter[0] == t[j]) tk = (int)k;
                    if (tk < 0) { r->status = SPEC_USER_ERROR; r->why = 4; return; }
                }
                if (has_eq) { r->status = SPEC_USER_ERROR; r->why = 5; return; }
                for (unsigned j = 1; j < nl; ++j)
                    for (unsigned k = 0; k < d->n; ++k)
                        if (d->e[k].kind == K_TOGGLE && d->e[k].letter[0] && d->e[k].letter[0] == t[j]) {
                            struct spec_ent* e = &r->e[k];
                            if (e->seen_neg) { r->status = SPEC_USER_ERROR; r->why = 6; return; }
                            e->seen_pos = 1; e->on_cmdline = 1; e->count++;
                        }
                continue;
            }
            for (unsigned k = 0; k < d->n; ++k) if (d->e[k].letter[0] && d->e[k].letter[0] == t[1]) target = (int)k;
            if (target < 0) { r->status = SPEC_USER_ERROR; r->why = 7; return; }
        }
        const struct decl_ent* de = &d->e[target];
        struct spec_ent* e = &r->e[target];
        if (de->kind == K_TOGGLE) {
            if (has_eq) { r->status = SPEC_USER_ERROR; r->why = 8; return; }
            if (negate) {
                if (!de->reversible) { r->status = SPEC_USER_ERROR; r->why = 9; return; }
                if (e->seen_pos) { r->status = SPEC_USER_ERROR; r->why = 6; return; }
                e->seen_neg = 1; e->on_cmdline = 1; e->count = 0;
            } else {
                if (e->seen_neg) { r->status = SPEC_USER_ERROR; r->why = 6; return; }
                e->seen_pos = 1; e->on_cmdline = 1; e->count++;
            }
            continue;
        }
        /* value-taking */
        if (!has_eq) {
            if (i + 1 < ntok && sp_is_value(tok[i + 1])) { val = tok[i + 1]; ++i; }
            else { r->status = SPEC_USER_ERROR; r->why = 10; return; }
        }
        if (de->kind == K_OPTION) {
            if (e->on_cmdline) { r->status = SPEC_USER_ERROR; r->why = 11; return; }
            e->on_cmdline = 1; e->present = 1; e->value = val; e->vlen = sp_len(val);
        } else {
            e->on_cmdline = 1;
            if (e->nvals < 8) { e->vals[e->nvals] = val; e->vlens[e->nvals] = sp_len(val); }
            e->nvals++;
        }
    }
    /* sources after the command line: environment (set and non-empty), declared default */
    for (unsigned k = 0; k < d->n; ++k) {
        const struct decl_ent* de = &d->e[k];
        struct spec_ent* e = &r->e[k];
        const char* ev = (de->env[0] && env && env[k] && env[k][0]) ? env[k] : 0;
        if (e->on_cmdline) { e->provided = 1; continue; }
        if (de->kind == K_TOGGLE) {
            if (ev) {
                int w = sp_env_word(ev);
                if (w < 0) { r->status = SPEC_USER_ERROR; r->why = 12; return; }
                e->count = w; e->provided = 1;
            } else e->count = de->has_default ? de->tdefault : 0;
        } else if (de->kind == K_OPTION) {
            if (ev) { e->present = 1; e->value = ev; e->vlen = sp_len(ev); e->provided = 1; }
            else if (de->has_default) { e->present = 1; e->value = de->dflt; e->vlen = sp_len(de->dflt); }
            else if (!de->optional) { r->status = SPEC_USER_ERROR; r->why = 13; return; }
        } else {
            if (ev) {
                /* split at ';' */
                unsigned s = 0, p = 0;
                for (;; ++p) {
                    if (ev[p] == ';' || ev[p] == 0) {
                        if (e->nvals < 8) { e->vals[e->nvals] = ev + s; e->vlens[e->nvals] = p - s; }
                        e->nvals++;
                        s = p + 1;
                        if (ev[p] == 0) break;
                    }
                }
                e->provided = 1;
            } else if (de->has_default) { e->nvals = 1; e->vals[0] = de->dflt; e->vlens[0] = sp_len(de->dflt); }
            else if (!de->optional) { r->status = SPEC_USER_ERROR; r->why = 13; return; }
        }
    }
}
#endif
